#!/bin/sh
# Developer aid: confirm a seeded change and run the registered checks against it.
#   seedcheck.sh <seed-dir-name> <out-dir-of-agent> <property> [more properties...]
# - copies patch.diff, demo_test.go, notes.md to /verif/seeded/<name>/
# - demo must pass on the unchanged /repo and fail with the patch; build + existing tests must pass with the patch
# - runs the quick checks of the given properties with the patch applied; /repo is restored afterwards
set -u
name=$1; out=$2; shift 2
props="$*"
export GOFLAGS=-mod=mod GOPROXY=off GOSUMDB=off GOTOOLCHAIN=local
dst=/verif/seeded/$name
mkdir -p "$dst"
cp "$out/patch.diff" "$dst/patch.diff"
cp "$out"/demo*_test.go "$dst/" 2>/dev/null
[ -f "$out/notes.md" ] && cp "$out/notes.md" "$dst/notes.md"
demo=$(mktemp -d)
printf 'module demo\ngo 1.23.1\nrequire github.com/nulab/autog v0.0.0\nreplace github.com/nulab/autog => /repo\n' > "$demo/go.mod"
cp /repo/go.sum "$demo/" 2>/dev/null
cp "$dst"/demo*_test.go "$demo/"
if [ -n "$(git -C /repo status --porcelain)" ]; then echo "/repo is not clean"; exit 2; fi
echo "== demo on the unchanged tree (must pass)"
(cd "$demo" && go test -count=1 ./... 2>&1 | tail -3);
(cd "$demo" && go test -count=1 ./... >/dev/null 2>&1); base=$?
echo "== applying patch"
if ! git -C /repo apply "$dst/patch.diff"; then echo "patch does not apply"; rm -rf "$demo"; exit 2; fi
echo "== build + existing tests with the patch (must pass)"
(cd /repo && go build ./... && go test -vet=off -count=1 ./... 2>&1 | grep -v "no test files" | grep -v "^ok");
(cd /repo && go build ./... >/dev/null 2>&1 && go test -vet=off -count=1 ./... >/dev/null 2>&1); suite=$?
echo "== demo with the patch (must fail)"
(cd "$demo" && go test -count=1 ./... 2>&1 | tail -6)
(cd "$demo" && go test -count=1 ./... >/dev/null 2>&1); withp=$?
echo "== checks with the patch"
res=""
for p in $props; do
  o=$(cd /verif && bin/govc check -property $p -evidence "$demo/ev" 2>&1); rc=$?
  echo "$o" | grep "FAILED-OBLIGATION" | cut -c1-220
  echo "$p exit $rc"
  res="$res $p:$rc"
done
git -C /repo checkout -- . ; git -C /repo clean -fdq
rm -rf "$demo"
echo "== summary: demo-unchanged=$base (want 0) suite-with-patch=$suite (want 0) demo-with-patch=$withp (want !=0) checks:$res"
