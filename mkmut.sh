#!/bin/sh
# Developer aid: create a must-fail mutant for the selftest corpus.
#   mkmut.sh <name> <property> <file-relative-to-repo> <sed-expression> <expected-obligation-substring>
# Writes selftest/mutants/<name>.diff and <name>.json. The mutant is NOT applied to /repo.
set -e
name=$1; prop=$2; file=$3; expr=$4; expect=$5
d=$(mktemp -d)
mkdir -p "$d/a/$(dirname "$file")" "$d/b/$(dirname "$file")"
cp "/repo/$file" "$d/a/$file"
sed "$expr" "/repo/$file" > "$d/b/$file"
if cmp -s "$d/a/$file" "$d/b/$file"; then echo "mutant $name: sed expression changed nothing" >&2; rm -rf "$d"; exit 1; fi
mkdir -p /verif/selftest/mutants
(cd "$d" && diff -u "a/$file" "b/$file" > "/verif/selftest/mutants/$name.diff" || true)
printf '{"name": "%s", "property": "%s", "patch": "%s.diff", "expect": "%s"}\n' "$name" "$prop" "$name" "$expect" > "/verif/selftest/mutants/$name.json"
rm -rf "$d"
echo "wrote selftest/mutants/$name.diff"
