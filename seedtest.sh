#!/bin/sh
# Developer aid: run every claimed quick check under several solver seeds; any non-zero exit is a stability problem.
cd "$(dirname "$0")"
props=$(python3 -c "import json; print(' '.join(c['property_id'] for c in json.load(open('MANIFEST.json'))['checks']))")
bad=0
for s in ${SEEDS:-1 2 3 4 5}; do
  for p in $props; do
    out=$(VERIF_SEED=$s bin/govc check -property $p -evidence /tmp/seedtest-ev 2>&1); rc=$?
    if [ $rc -ne 0 ]; then echo "seed $s $p exit $rc"; echo "$out" | grep "FAILED-OBLIGATION\|ENGINE" | cut -c1-200; bad=1; fi
  done
done
rm -rf /tmp/seedtest-ev
[ $bad -eq 0 ] && echo "seedtest: all stable"
exit $bad
