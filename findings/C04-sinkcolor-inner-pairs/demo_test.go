package demo

// C04 finding (reported by phase4.placeBlock/loop[range(g.Layers)#1].inv[row].preserved on the tree before the repair):
// the default positioner (SinkColoring) separated only the last pair of a band; inner neighbours were merely ordered.
// Default options, three small DAGs with mixed node widths. Run in a throw-away module with
//   replace github.com/nulab/autog => /repo
// Fails before the repair (nodes of one band overlap / share an x), passes after it.

import (
	"testing"

	"github.com/nulab/autog"
	"github.com/nulab/autog/graph"
)

func check(t *testing.T, es [][]string, widths map[string]float64) {
	sizes := map[string]graph.Size{}
	for id, w := range widths {
		sizes[id] = graph.Size{W: w, H: 20}
	}
	l := autog.Layout(graph.EdgeSlice(es), autog.WithNodeSize(sizes))
	const spacing = 60.0 // default NodeSpacing
	for i, a := range l.Nodes {
		for j, b := range l.Nodes {
			if i >= j || a.Y != b.Y {
				continue
			}
			lo, hi := a, b
			if b.X < a.X {
				lo, hi = b, a
			}
			if hi.X < lo.X+lo.W+spacing-1e-9 {
				t.Errorf("band y=%v: %s [x=%v w=%v] and %s [x=%v] are closer than the spacing %v", a.Y, lo.ID, lo.X, lo.W, hi.ID, hi.X, spacing)
			}
		}
	}
}

func TestSinkColoringKeepsSpacing(t *testing.T) {
	check(t, [][]string{{"n2", "n5"}, {"n2", "n7"}, {"n1", "n3"}, {"n5", "n8"}, {"n4", "n5"}, {"n0", "n3"}, {"n0", "n5"}, {"n4", "n8"}},
		map[string]float64{"n0": 100, "n1": 130, "n2": 130, "n3": 40, "n4": 100, "n5": 100, "n6": 100, "n7": 100, "n8": 70})
	check(t, [][]string{{"n1", "n3"}, {"n1", "n3"}, {"n2", "n6"}, {"n4", "n5"}, {"n2", "n4"}, {"n5", "n6"}, {"n0", "n4"}, {"n5", "n6"}, {"n2", "n6"}, {"n0", "n3"}, {"n3", "n5"}},
		map[string]float64{"n0": 100, "n1": 10, "n2": 10, "n3": 10, "n4": 130, "n5": 70, "n6": 70})
	check(t, [][]string{{"n2", "n7"}, {"n1", "n2"}, {"n3", "n6"}, {"n2", "n3"}, {"n3", "n4"}, {"n1", "n3"}, {"n6", "n7"}, {"n2", "n3"}, {"n0", "n7"}, {"n4", "n6"}, {"n4", "n5"}},
		map[string]float64{"n0": 40, "n1": 40, "n2": 10, "n3": 70, "n4": 130, "n5": 100, "n6": 70, "n7": 10})
}
