package main

// Write-effect inference: which heap regions, locals and reference parameters a piece of code may modify.

import (
	"sort"
	"fmt"
	"go/ast"
	"go/token"
	"go/types"
	"strings"

	"golang.org/x/tools/go/packages"
)

type Eff struct {
	ifaceVia  map[*FuncInfo]string // callee reached only through dispatch on this interface type
	callees   map[*FuncInfo]bool // module functions possibly called (static, interface implementations, closures by signature)
	extCalls  map[string]bool    // external functions called (pkgpath.Name)
	directGlobalWrites map[string]bool
	regions   map[string]bool
	assigned  map[*types.Var]bool
	refVars   map[*types.Var]bool // reference parameters written through
	refWrites map[int]bool        // by parameter index (functions only)
	reads     map[string]bool     // regions read (fields), used by the reads checks
	globalsRead map[string]bool
}

func newEff() *Eff {
	return &Eff{ifaceVia: map[*FuncInfo]string{}, callees: map[*FuncInfo]bool{}, extCalls: map[string]bool{}, directGlobalWrites: map[string]bool{}, regions: map[string]bool{}, assigned: map[*types.Var]bool{}, refVars: map[*types.Var]bool{}, refWrites: map[int]bool{}, reads: map[string]bool{}, globalsRead: map[string]bool{}}
}

func (e *Eff) size() int {
	return len(e.callees) + len(e.extCalls) + len(e.regions) + len(e.assigned) + len(e.refVars) + len(e.refWrites) + len(e.reads) + len(e.globalsRead)
}

func (e *Eff) addAll(o *Eff) {
	for k := range o.regions {
		e.regions[k] = true
	}
	for k := range o.reads {
		e.reads[k] = true
	}
	for k := range o.globalsRead {
		e.globalsRead[k] = true
	}
}

type Effects struct {
	prog        *Prog
	tm          *TypeMap
	byFunc      map[*FuncInfo]*Eff
	byLit       map[*ast.FuncLit]*Eff
	regionSorts map[string]Sort
	litsBySig   map[string][]litRef
	closureVars map[*types.Var]*ast.FuncLit
	litPkg      map[*ast.FuncLit]*packages.Package
}

type litRef struct {
	pkg *packages.Package
	lit *ast.FuncLit
}

func ComputeEffects(pr *Prog) *Effects {
	ctx := NewCtx()
	ef := &Effects{prog: pr, tm: NewTypeMap(ctx), byFunc: map[*FuncInfo]*Eff{}, byLit: map[*ast.FuncLit]*Eff{}, regionSorts: map[string]Sort{},
		litsBySig: map[string][]litRef{}, closureVars: map[*types.Var]*ast.FuncLit{}, litPkg: map[*ast.FuncLit]*packages.Package{}}
	ef.regionSorts[allocKey] = ArrSort(SRef, SBool)
	ef.regionSorts[arrAllocKey] = ArrSort(SInt, SBool)
	ef.regionSorts[mapLenKey] = ArrSort(SRef, SInt)
	for _, k := range pr.FuncKeys {
		fi := pr.Funcs[k]
		ef.byFunc[fi] = newEff()
		for _, l := range fi.Lits {
			ef.byLit[l] = newEff()
			ef.litPkg[l] = fi.Pkg
			sig := fi.Pkg.TypesInfo.TypeOf(l).(*types.Signature)
			ef.litsBySig[sigKey(sig)] = append(ef.litsBySig[sigKey(sig)], litRef{fi.Pkg, l})
		}
		// closure variable bindings
		ast.Inspect(fi.Decl.Body, func(n ast.Node) bool {
			switch s := n.(type) {
			case *ast.AssignStmt:
				if len(s.Lhs) == 1 && len(s.Rhs) == 1 {
					if fl, ok := s.Rhs[0].(*ast.FuncLit); ok {
						if id, ok := s.Lhs[0].(*ast.Ident); ok {
							if v, ok := fi.Pkg.TypesInfo.ObjectOf(id).(*types.Var); ok {
								ef.closureVars[v] = fl
							}
						}
					}
				}
			case *ast.ValueSpec:
				for i, nm := range s.Names {
					if i < len(s.Values) {
						if fl, ok := s.Values[i].(*ast.FuncLit); ok {
							if v, ok := fi.Pkg.TypesInfo.Defs[nm].(*types.Var); ok {
								ef.closureVars[v] = fl
							}
						}
					}
				}
			}
			return true
		})
	}
	for iter := 0; iter < 50; iter++ {
		changed := false
		for _, k := range pr.FuncKeys {
			fi := pr.Funcs[k]
			e := ef.byFunc[fi]
			before := e.size()
			w := &effWalker{ef: ef, pkg: fi.Pkg, eff: e, fi: fi}
			w.walk(fi.Decl.Body)
			// map ref var writes to param indices
			ps := paramVarsOf(fi)
			for i, p := range ps {
				if e.refVars[p] {
					e.refWrites[i] = true
				}
			}
			if e.size() != before {
				changed = true
			}
			for _, l := range fi.Lits {
				le := ef.byLit[l]
				b := le.size()
				lw := &effWalker{ef: ef, pkg: fi.Pkg, eff: le, fi: fi}
				lw.walk(l.Body)
				if le.size() != b {
					changed = true
				}
			}
		}
		if !changed {
			break
		}
	}
	return ef
}

func sigKey(sig *types.Signature) string {
	return types.TypeString(sig, nil)
}

func paramVarsOf(fi *FuncInfo) []*types.Var {
	var ps []*types.Var
	info := fi.Pkg.TypesInfo
	if fi.Decl.Recv != nil && len(fi.Decl.Recv.List) > 0 {
		f := fi.Decl.Recv.List[0]
		if len(f.Names) > 0 {
			v, _ := info.Defs[f.Names[0]].(*types.Var)
			ps = append(ps, v)
		} else {
			ps = append(ps, nil)
		}
	}
	for _, f := range fi.Decl.Type.Params.List {
		if len(f.Names) == 0 {
			ps = append(ps, nil)
		}
		for _, n := range f.Names {
			v, _ := info.Defs[n].(*types.Var)
			ps = append(ps, v)
		}
	}
	return ps
}

func (ef *Effects) Of(fi *FuncInfo) *Eff { return ef.byFunc[fi] }

func (ef *Effects) OfLit(pkg *packages.Package, l *ast.FuncLit) *Eff {
	if e, ok := ef.byLit[l]; ok {
		return e
	}
	return newEff()
}

// OfNode computes the effects of an arbitrary statement/body (for loop havoc sets).
func (ef *Effects) OfNode(pkg *packages.Package, fi *FuncInfo, n ast.Node) *Eff {
	e := newEff()
	w := &effWalker{ef: ef, pkg: pkg, eff: e, fi: fi}
	w.walk(n)
	return e
}

func (ef *Effects) UnknownFuncEffects(sig *types.Signature) []string {
	e := newEff()
	for _, lr := range ef.litsBySig[sigKey(sig)] {
		e.addAll(ef.byLit[lr.lit])
	}
	return sortedKeys(e.regions)
}

func (ef *Effects) implementations(m *types.Func) []*FuncInfo {
	var out []*FuncInfo
	for _, k := range ef.prog.FuncKeys {
		fi := ef.prog.Funcs[k]
		if fi.Obj.Name() != m.Name() {
			continue
		}
		sig := fi.Obj.Type().(*types.Signature)
		if sig.Recv() == nil {
			continue
		}
		msig := m.Type().(*types.Signature)
		if !types.Identical(types.NewSignatureType(nil, nil, nil, sig.Params(), sig.Results(), sig.Variadic()),
			types.NewSignatureType(nil, nil, nil, msig.Params(), msig.Results(), msig.Variadic())) {
			continue
		}
		out = append(out, fi)
	}
	return out
}

func (ef *Effects) InterfaceMethodEffects(m *types.Func) []string {
	e := newEff()
	for _, fi := range ef.implementations(m) {
		e.addAll(ef.byFunc[fi])
	}
	return sortedKeys(e.regions)
}

// ParseRegion parses a modifies item.
func (ef *Effects) ParseRegion(m string, from *types.Package) ([]string, error) {
	m = strings.TrimSpace(m)
	switch {
	case m == "alloc":
		return []string{allocKey, arrAllocKey}, nil
	case strings.HasPrefix(m, "Elems[") && strings.HasSuffix(m, "]"):
		t, err := ef.prog.LookupType(m[6:len(m)-1], from)
		if err != nil {
			return nil, err
		}
		es := ef.tm.SortOf(t)
		ef.regionSorts[ef.tm.ElemsKey(t)] = elemsSort(es)
		return []string{ef.tm.ElemsKey(t)}, nil
	case strings.HasPrefix(m, "map["):
		t, err := ef.prog.LookupType(m, from)
		if err != nil {
			return nil, err
		}
		return ef.mapRegions(t.(*types.Map)), nil
	case strings.HasPrefix(m, "global "):
		name := strings.TrimSpace(m[7:])
		return []string{"G$" + name}, nil
	}
	i := strings.LastIndex(m, ".")
	if i < 0 {
		return nil, fmt.Errorf("region must be Type.field")
	}
	// Type may be pkg.Type; field may be * or a leaf name (last component)
	tyText, field := m[:i], m[i+1:]
	t, err := ef.prog.LookupType(tyText, from)
	if err != nil {
		return nil, err
	}
	st, ok := types.Unalias(t).Underlying().(*types.Struct)
	if !ok {
		return nil, fmt.Errorf("%s is not a struct", tyText)
	}
	var out []string
	for _, l := range ef.tm.Leaves(t, st, nil) {
		ef.regionSorts[l.Key] = ef.tm.HeapSort(l.Type)
		if field == "*" || strings.HasSuffix(l.Key, "."+field) {
			out = append(out, l.Key)
		}
	}
	if len(out) == 0 {
		return nil, fmt.Errorf("no field %s in %s", field, tyText)
	}
	return out, nil
}

func (ef *Effects) mapRegions(mt *types.Map) []string {
	ks, vs := ef.tm.SortOf(mt.Key()), ef.tm.SortOf(mt.Elem())
	ef.regionSorts[mapValKey(ks, vs)] = ArrSort(SRef, ArrSort(ks, vs))
	ef.regionSorts[mapDomKey(ks, vs)] = ArrSort(SRef, ArrSort(ks, SBool))
	return []string{mapValKey(ks, vs), mapDomKey(ks, vs), mapLenKey}
}

// ---------------------------------------------------------------------------

type effWalker struct {
	ef  *Effects
	pkg *packages.Package
	eff *Eff
	fi  *FuncInfo
}

func (w *effWalker) region(key string, s Sort) {
	w.eff.regions[key] = true
	w.ef.regionSorts[key] = s
}

func (w *effWalker) elems(t types.Type) {
	es := w.ef.tm.SortOf(t)
	w.region(w.ef.tm.ElemsKey(t), elemsSort(es))
}

func (w *effWalker) mapRegs(mt *types.Map) {
	for _, k := range w.ef.mapRegions(mt) {
		w.eff.regions[k] = true
	}
}

func (w *effWalker) allLeaves(T types.Type) {
	st, ok := types.Unalias(T).Underlying().(*types.Struct)
	if !ok {
		w.region(fieldKey(T, []string{"val"}), w.ef.tm.HeapSort(T))
		return
	}
	for _, l := range w.ef.tm.Leaves(T, st, nil) {
		w.region(l.Key, w.ef.tm.HeapSort(l.Type))
	}
}

func (w *effWalker) walk(n ast.Node) {
	info := w.pkg.TypesInfo
	ast.Inspect(n, func(n ast.Node) bool {
		switch s := n.(type) {
		case *ast.AssignStmt:
			for _, l := range s.Lhs {
				w.writeTarget(l)
			}
		case *ast.IncDecStmt:
			w.writeTarget(s.X)
		case *ast.RangeStmt:
			if s.Key != nil {
				w.writeTarget(s.Key)
			}
			if s.Value != nil {
				w.writeTarget(s.Value)
			}
		case *ast.ValueSpec:
			for _, nm := range s.Names {
				if v, ok := info.Defs[nm].(*types.Var); ok {
					w.eff.assigned[v] = true
				}
			}
		case *ast.UnaryExpr:
			if s.Op == token.AND {
				if cl, ok := s.X.(*ast.CompositeLit); ok {
					w.region(allocKey, ArrSort(SRef, SBool))
					w.allLeaves(info.TypeOf(cl))
				}
			}
		case *ast.CompositeLit:
			switch u := types.Unalias(info.TypeOf(s)).Underlying().(type) {
			case *types.Slice:
				w.region(arrAllocKey, ArrSort(SInt, SBool))
				w.elems(u.Elem())
			case *types.Map:
				w.region(allocKey, ArrSort(SRef, SBool))
				w.mapRegs(u)
			case *types.Struct:
				// elided &T in slice literal of pointers
				for _, el := range s.Elts {
					if cl, ok := el.(*ast.CompositeLit); ok && cl.Type == nil {
						if pt, ok := types.Unalias(info.TypeOf(cl)).Underlying().(*types.Pointer); ok {
							w.region(allocKey, ArrSort(SRef, SBool))
							w.allLeaves(pt.Elem())
						}
					}
				}
			}
		case *ast.SelectorExpr:
			w.readSel(s)
		case *ast.Ident:
			if v, ok := info.Uses[s].(*types.Var); ok && v.Pkg() != nil && v.Parent() == v.Pkg().Scope() {
				w.eff.globalsRead["G$"+pkgShort(v.Pkg().Path())+"."+v.Name()] = true
			}
		case *ast.CallExpr:
			w.call(s)
		}
		return true
	})
}

func (w *effWalker) readSel(s *ast.SelectorExpr) {
	info := w.pkg.TypesInfo
	sel, ok := info.Selections[s]
	if !ok || sel.Kind() != types.FieldVal {
		return
	}
	for _, k := range w.selKeys(s, sel) {
		w.eff.reads[k] = true
	}
}

// selKeys returns the heap region keys addressed by a field selection (empty if it addresses a local value).
func (w *effWalker) selKeys(s *ast.SelectorExpr, sel *types.Selection) []string {
	info := w.pkg.TypesInfo
	curT := info.TypeOf(s.X)
	var heapT types.Type
	var names []string
	if pt, ok := types.Unalias(curT).Underlying().(*types.Pointer); ok {
		heapT = pt.Elem()
		curT = pt.Elem()
	} else {
		// value base: heap if the base expression is itself heap-addressed
		heapT, names = w.heapBase(s.X)
	}
	for _, idx := range sel.Index() {
		st, ok := types.Unalias(curT).Underlying().(*types.Struct)
		if !ok {
			pt, ok := types.Unalias(curT).Underlying().(*types.Pointer)
			if !ok {
				return nil
			}
			heapT = pt.Elem()
			names = nil
			curT = pt.Elem()
			st = types.Unalias(curT).Underlying().(*types.Struct)
		}
		f := st.Field(idx)
		if heapT != nil {
			names = append(append([]string{}, names...), f.Name())
		}
		curT = f.Type()
	}
	if heapT == nil {
		return nil
	}
	if st, ok := types.Unalias(curT).Underlying().(*types.Struct); ok {
		var out []string
		for _, l := range w.ef.tm.Leaves(heapT, st, names) {
			w.ef.regionSorts[l.Key] = w.ef.tm.HeapSort(l.Type)
			out = append(out, l.Key)
		}
		return out
	}
	k := fieldKey(heapT, names)
	w.ef.regionSorts[k] = w.ef.tm.HeapSort(curT)
	return []string{k}
}

// heapBase: if e denotes a struct value stored in the heap (x.f where x is a pointer), return the heap type and path.
func (w *effWalker) heapBase(e ast.Expr) (types.Type, []string) {
	info := w.pkg.TypesInfo
	switch e := ast.Unparen(e).(type) {
	case *ast.SelectorExpr:
		sel, ok := info.Selections[e]
		if !ok || sel.Kind() != types.FieldVal {
			return nil, nil
		}
		curT := info.TypeOf(e.X)
		var heapT types.Type
		var names []string
		if pt, ok := types.Unalias(curT).Underlying().(*types.Pointer); ok {
			heapT, curT = pt.Elem(), pt.Elem()
		} else {
			heapT, names = w.heapBase(e.X)
		}
		for _, idx := range sel.Index() {
			st, ok := types.Unalias(curT).Underlying().(*types.Struct)
			if !ok {
				pt, ok := types.Unalias(curT).Underlying().(*types.Pointer)
				if !ok {
					return nil, nil
				}
				heapT, names, curT = pt.Elem(), nil, pt.Elem()
				st = types.Unalias(curT).Underlying().(*types.Struct)
			}
			f := st.Field(idx)
			if heapT != nil {
				names = append(append([]string{}, names...), f.Name())
			}
			curT = f.Type()
		}
		return heapT, names
	case *ast.StarExpr:
		if pt, ok := types.Unalias(info.TypeOf(e.X)).Underlying().(*types.Pointer); ok {
			if _, ok := types.Unalias(pt.Elem()).Underlying().(*types.Struct); ok {
				return pt.Elem(), nil
			}
		}
	}
	return nil, nil
}

func (w *effWalker) writeTarget(e ast.Expr) {
	info := w.pkg.TypesInfo
	switch e := ast.Unparen(e).(type) {
	case *ast.Ident:
		if e.Name == "_" {
			return
		}
		if v, ok := info.ObjectOf(e).(*types.Var); ok {
			if v.Pkg() != nil && v.Parent() == v.Pkg().Scope() {
				w.region("G$"+pkgShort(v.Pkg().Path())+"."+v.Name(), w.ef.tm.SortOf(v.Type()))
				w.eff.directGlobalWrites["G$"+pkgShort(v.Pkg().Path())+"."+v.Name()] = true
			} else {
				w.eff.assigned[v] = true
			}
		}
	case *ast.SelectorExpr:
		sel, ok := info.Selections[e]
		if !ok {
			if v, ok := info.ObjectOf(e.Sel).(*types.Var); ok && v.Pkg() != nil {
				w.region("G$"+pkgShort(v.Pkg().Path())+"."+v.Name(), w.ef.tm.SortOf(v.Type()))
			}
			return
		}
		ks := w.selKeys(e, sel)
		if len(ks) == 0 {
			// field of a local struct value: the root variable is assigned
			w.writeTarget(e.X)
			return
		}
		for _, k := range ks {
			w.eff.regions[k] = true
		}
	case *ast.IndexExpr:
		switch u := types.Unalias(info.TypeOf(e.X)).Underlying().(type) {
		case *types.Slice:
			w.elems(u.Elem())
		case *types.Map:
			w.mapRegs(u)
		case *types.Array:
			w.writeTarget(e.X)
		}
	case *ast.StarExpr:
		if id, ok := ast.Unparen(e.X).(*ast.Ident); ok {
			if v, ok := info.ObjectOf(id).(*types.Var); ok && isRefParamType(v.Type()) {
				w.eff.refVars[v] = true
				return
			}
		}
		if pt, ok := types.Unalias(info.TypeOf(e.X)).Underlying().(*types.Pointer); ok {
			w.allLeaves(pt.Elem())
		}
	}
}

func (w *effWalker) call(ce *ast.CallExpr) {
	info := w.pkg.TypesInfo
	if tv, ok := info.Types[ce.Fun]; ok && tv.IsType() {
		return
	}
	fun := ast.Unparen(ce.Fun)
	if id, ok := fun.(*ast.Ident); ok {
		if b, ok := info.Uses[id].(*types.Builtin); ok {
			switch b.Name() {
			case "append":
				if st, ok := types.Unalias(info.TypeOf(ce)).Underlying().(*types.Slice); ok {
					w.elems(st.Elem())
					w.region(arrAllocKey, ArrSort(SInt, SBool))
				}
			case "copy":
				if st, ok := types.Unalias(info.TypeOf(ce.Args[0])).Underlying().(*types.Slice); ok {
					w.elems(st.Elem())
				}
			case "delete", "clear":
				if mt, ok := types.Unalias(info.TypeOf(ce.Args[0])).Underlying().(*types.Map); ok {
					w.mapRegs(mt)
				}
				if st, ok := types.Unalias(info.TypeOf(ce.Args[0])).Underlying().(*types.Slice); ok && b.Name() == "clear" {
					w.elems(st.Elem())
				}
			case "make":
				switch u := types.Unalias(info.TypeOf(ce)).Underlying().(type) {
				case *types.Slice:
					w.elems(u.Elem())
					w.region(arrAllocKey, ArrSort(SInt, SBool))
				case *types.Map:
					w.region(allocKey, ArrSort(SRef, SBool))
					w.mapRegs(u)
				}
			case "new":
				w.region(allocKey, ArrSort(SRef, SBool))
				w.allLeaves(info.TypeOf(ce.Args[0]))
			}
			return
		}
	}
	var callee *types.Func
	var recv ast.Expr
	switch f := fun.(type) {
	case *ast.Ident:
		switch o := info.Uses[f].(type) {
		case *types.Func:
			callee = o
		case *types.Var:
			if fl, ok := w.ef.closureVars[o]; ok {
				le := w.ef.byLit[fl]
				if le != nil {
					w.eff.addAll(le)
					for v := range le.assigned {
						w.eff.assigned[v] = true
					}
					for v := range le.refVars {
						w.eff.refVars[v] = true
					}
				}
				return
			}
			if sig, ok := types.Unalias(o.Type()).Underlying().(*types.Signature); ok {
				w.unknownFunc(sig)
			}
			return
		}
	case *ast.SelectorExpr:
		if sel, ok := info.Selections[f]; ok {
			switch sel.Kind() {
			case types.MethodVal:
				callee, _ = sel.Obj().(*types.Func)
				recv = f.X
			case types.FieldVal:
				if sig, ok := types.Unalias(info.TypeOf(f)).Underlying().(*types.Signature); ok {
					w.unknownFunc(sig)
				}
				return
			}
		} else if o, ok := info.Uses[f.Sel].(*types.Func); ok {
			callee = o
		}
	case *ast.IndexExpr:
		if id, ok := f.X.(*ast.Ident); ok {
			callee, _ = info.Uses[id].(*types.Func)
		}
	}
	if callee == nil {
		return
	}
	callee = callee.Origin()
	sig := callee.Type().(*types.Signature)
	if recv != nil {
		if _, isIface := types.Unalias(info.TypeOf(recv)).Underlying().(*types.Interface); isIface {
			iname := ""
			if n, ok := types.Unalias(info.TypeOf(recv)).(*types.Named); ok {
				iname = n.Obj().Name()
			}
			for _, fi := range w.ef.implementations(callee) {
				w.eff.addAll(w.ef.byFunc[fi])
				if !w.eff.callees[fi] {
					w.eff.ifaceVia[fi] = iname
				}
				w.eff.callees[fi] = true
			}
			return
		}
	}
	if fi, ok := w.ef.prog.ByObj[callee]; ok {
		ce2 := w.ef.byFunc[fi]
		w.eff.addAll(ce2)
		w.eff.callees[fi] = true
		// reference parameters
		idx := 0
		if sig.Recv() != nil {
			if ce2.refWrites[0] && recv != nil {
				r := ast.Unparen(recv)
				if ue, ok := r.(*ast.UnaryExpr); ok && ue.Op == token.AND {
					r = ue.X
				}
				w.writeTarget2(r)
			}
			idx = 1
		}
		for i, a := range ce.Args {
			if ce2.refWrites[idx+i] {
				r := ast.Unparen(a)
				if ue, ok := r.(*ast.UnaryExpr); ok && ue.Op == token.AND {
					w.writeTarget2(ue.X)
				} else {
					w.writeTarget2(&ast.StarExpr{X: r})
				}
			}
		}
		return
	}
	// stdlib
	if callee.Pkg() == nil {
		return
	}
	full := callee.Pkg().Path() + "." + callee.Name()
	if r := sig.Recv(); r != nil {
		full = callee.Pkg().Path() + "." + recvTypeName(r.Type()) + "." + callee.Name()
	}
	w.eff.extCalls[full] = true
	argT := func(i int) types.Type {
		if i < len(ce.Args) {
			return info.TypeOf(ce.Args[i])
		}
		return nil
	}
	switch full {
	case "sort.Slice", "sort.Ints", "sort.Float64s", "slices.Reverse", "sort.SliceStable", "slices.Sort":
		if st, ok := types.Unalias(argT(0)).Underlying().(*types.Slice); ok {
			w.elems(st.Elem())
		}
	case "slices.Grow", "slices.Clone", "slices.Clip", "slices.Collect":
		if st, ok := types.Unalias(info.TypeOf(ce)).Underlying().(*types.Slice); ok {
			w.elems(st.Elem())
			w.region(arrAllocKey, ArrSort(SInt, SBool))
		}
	case "maps.Clone":
		if mt, ok := types.Unalias(info.TypeOf(ce)).Underlying().(*types.Map); ok {
			w.region(allocKey, ArrSort(SRef, SBool))
			w.mapRegs(mt)
		}
	case "maps.Copy":
		if mt, ok := types.Unalias(argT(0)).Underlying().(*types.Map); ok {
			w.mapRegs(mt)
		}
	}
}

// writeTarget2 handles reference-argument writes: the argument may be *p where p is itself a ref param.
func (w *effWalker) writeTarget2(e ast.Expr) {
	info := w.pkg.TypesInfo
	if se, ok := e.(*ast.StarExpr); ok {
		if id, ok := ast.Unparen(se.X).(*ast.Ident); ok {
			if v, ok := info.ObjectOf(id).(*types.Var); ok {
				w.eff.refVars[v] = true
				return
			}
		}
		return
	}
	w.writeTarget(e)
}

func (w *effWalker) unknownFunc(sig *types.Signature) {
	for _, lr := range w.ef.litsBySig[sigKey(sig)] {
		if le := w.ef.byLit[lr.lit]; le != nil {
			w.eff.addAll(le)
			for c := range le.callees {
				w.eff.callees[c] = true
			}
		}
	}
}

// Reachable returns the module functions reachable from root through the call graph (static calls, interface
// implementations, closures by signature).
func (ef *Effects) Reachable(root *FuncInfo, skipIface ...string) map[*FuncInfo]bool {
	seen := map[*FuncInfo]bool{root: true}
	work := []*FuncInfo{root}
	for len(work) > 0 {
		f := work[len(work)-1]
		work = work[:len(work)-1]
		e := ef.byFunc[f]
		if e == nil {
			continue
		}
		for c := range e.callees {
			skip := false
			for _, si := range skipIface {
				if via, ok := e.ifaceVia[c]; ok && via == si {
					skip = true
				}
			}
			if skip {
				continue
			}
			if !seen[c] {
				seen[c] = true
				work = append(work, c)
			}
		}
	}
	return seen
}

// sortedVars returns the variables of a set in a deterministic order (by position, then name).
func sortedVars(m map[*types.Var]bool) []*types.Var {
	vs := make([]*types.Var, 0, len(m))
	for v := range m {
		vs = append(vs, v)
	}
	sort.Slice(vs, func(i, j int) bool {
		if vs[i].Pos() != vs[j].Pos() {
			return vs[i].Pos() < vs[j].Pos()
		}
		return vs[i].Name() < vs[j].Name()
	})
	return vs
}
