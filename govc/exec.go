package main

// Statement execution: structured symbolic execution with merged outcomes.

import (
	"fmt"
	"go/ast"
	"go/token"
	"go/types"
	"strings"
)

type Xlat struct {
	prog    *Prog
	ctx     *Ctx
	tm      *TypeMap
	fi      *FuncInfo // function under verification
	obls    []*Obligation
	counts  map[string]int
	frameN  int
	eff     *Effects
	notes   []string // outside-subset notes
	used    map[string]bool // callee contracts used (assumed at call sites)
	inlined map[string]bool
	havoced map[string]bool // callees approximated by havoc of their effects
	models  map[string]bool // stdlib models used
	trackPanic bool
	specDecl map[string]bool
	curFunc  string
	noSafety bool
	loopHdrCount map[string]int

	qn int
	stopAfterPre bool // callContract: emit the preconditions only (the caller inlines the body afterwards)
	rp *ReplayInfo // replay of counterexamples: the function under verification and its parameters
	nn bool // view C01: non-nil discipline of the graph structure (assumption A11)
	lock *lockCtx
	lockHavocOK bool
	view string // property view: clauses tagged for other properties are dropped
	typeTags map[string]int
	entryMeasure *Term
	specInfos map[string]*specFnInfo
	specPlaceholder map[string]bool
}

type unsupported struct{ msg string }

func (x *Xlat) unsupp(pos token.Pos, f string, a ...any) {
	p := x.prog.Fset.Position(pos)
	panic(unsupported{fmt.Sprintf("%s:%d: ", shortFile(p.Filename), p.Line) + fmt.Sprintf(f, a...)})
}

func shortFile(f string) string {
	if i := strings.Index(f, "/repo/"); i >= 0 {
		return f[i+6:]
	}
	return f
}

func (x *Xlat) note(f string, a ...any) {
	x.notes = append(x.notes, fmt.Sprintf(f, a...))
}

func (x *Xlat) newFrame(fi *FuncInfo, lit *ast.FuncLit, parent, caller *Frame) *Frame {
	x.frameN++
	fr := &Frame{id: x.frameN, fi: fi, lit: lit, parent: parent, caller: caller,
		vars: map[*types.Var]string{}, refParams: map[*types.Var]Place{}, closures: map[*types.Var]*Closure{}, ghost: map[string]string{}}
	if fi != nil {
		fr.pkg = fi.Pkg
	} else if parent != nil {
		fr.pkg = parent.pkg
	}
	if caller != nil {
		fr.depth = caller.depth + 1
	}
	return fr
}

// lookupVar finds the env key of a variable, walking lexical parents.
func (fr *Frame) lookupVar(v *types.Var) (string, *Frame, bool) {
	for f := fr; f != nil; f = f.parent {
		if k, ok := f.vars[v]; ok {
			return k, f, true
		}
	}
	return "", nil, false
}

func (fr *Frame) lookupRefParam(v *types.Var) (Place, bool) {
	for f := fr; f != nil; f = f.parent {
		if p, ok := f.refParams[v]; ok {
			return p, true
		}
	}
	return nil, false
}

func (fr *Frame) lookupClosure(v *types.Var) (*Closure, bool) {
	for f := fr; f != nil; f = f.parent {
		if c, ok := f.closures[v]; ok {
			return c, true
		}
	}
	return nil, false
}

func (fr *Frame) lookupGhost(name string) (string, bool) {
	for f := fr; f != nil; f = f.parent {
		if t, ok := f.ghost[name]; ok {
			return t, true
		}
	}
	return "", false
}

func (x *Xlat) declVar(st *State, fr *Frame, v *types.Var, val *Term) string {
	key := fmt.Sprintf("v$%d$%s", fr.id, v.Name())
	if old, ok := fr.vars[v]; ok {
		key = old
	} else {
		// disambiguate shadowed names
		for _, k := range fr.vars {
			if k == key {
				key = fmt.Sprintf("v$%d$%s$%d", fr.id, v.Name(), int(v.Pos()))
				break
			}
		}
		fr.vars[v] = key
	}
	if val != nil {
		x.set(st, key, val)
	}
	return key
}

// ---------------------------------------------------------------------------
// obligations

func (x *Xlat) oblName(kind string) string {
	x.counts[kind]++
	return fmt.Sprintf("%s/%s.%d", x.curFunc, kind, x.counts[kind])
}

func (x *Xlat) emit(st *State, name, kind string, goal *Term, pos token.Pos, text string) *Obligation {
	if x.lock != nil && kind != "lockstep" {
		// lockstep mode: the functional obligations are discharged by the other checks; here they are only assumed
		return &Obligation{Name: name, Kind: kind, Func: x.curFunc, Goal: goal, Text: text, Ctx: x.ctx}
	}
	o := &Obligation{Name: name, Kind: kind, Func: x.curFunc, Hyps: st.hyps(), Goal: goal, Text: text, Ctx: x.ctx, Replay: x.rp}
	if pos.IsValid() {
		o.Pos = x.prog.Fset.Position(pos)
	}
	x.obls = append(x.obls, o)
	return o
}

// safety emits a run-time-panic obligation and continues under the assumption that it holds.
// When panics are tracked, the failing branch is added to out.pan.
func (x *Xlat) safety(st *State, out *Outcomes, kind string, goal *Term, pos token.Pos, text string) {
	if goal.IsTrue() {
		return
	}
	x.lockBranch(st, goal, pos, text)
	if !x.noSafety {
		x.emit(st, x.oblName("safety."+kind), "safety", goal, pos, text)
	}
	if x.trackPanic && out != nil {
		p := st.clone()
		p.guard(Not(goal))
		out.pan = x.merge(out.pan, p)
	}
	st.guard(goal)
}

// ---------------------------------------------------------------------------
// statements

func (x *Xlat) execBlock(st *State, fr *Frame, stmts []ast.Stmt) *Outcomes {
	out := &Outcomes{}
	cur := st
	for _, s := range stmts {
		// labeled statement: merge pending gotos
		if ls, ok := s.(*ast.LabeledStmt); ok {
			if g, ok := out.gotos[ls.Label.Name]; ok {
				cur = x.merge(cur, g)
				delete(out.gotos, ls.Label.Name)
			}
		}
		if cur == nil || cur.dead() {
			// unreachable rest, but labels may revive
			cur = nil
			if _, ok := s.(*ast.LabeledStmt); !ok {
				continue
			}
			continue
		}
		x.anchoredAsserts(cur, fr, s, "before")
		o := x.execStmt(cur, fr, s)
		x.absorb(out, o)
		cur = o.normal
		if cur != nil && !cur.dead() {
			x.anchoredAsserts(cur, fr, s, "after")
		}
	}
	out.normal = cur
	return out
}

// anchoredAsserts emits the contract's assert clauses attached to this statement (matched by source text prefix).
func (x *Xlat) anchoredAsserts(st *State, fr *Frame, s ast.Stmt, when string) {
	if fr.fi == nil || fr.fi.Spec == nil || len(fr.fi.Spec.Asserts) == 0 || fr.lit != nil {
		return
	}
	var txt string
	for i, a := range fr.fi.Spec.Asserts {
		if a.When != when || !a.inView(x.view) {
			continue
		}
		if txt == "" {
			txt = x.src(s)
		}
		if !strings.HasPrefix(txt, a.Anchor) {
			continue
		}
		a.Hit = true
		env := x.newSpecEnvFrame(st, fr, s.End())
		if when == "before" {
			env.pos = s.Pos()
		}
		g := env.evalBool(a.Expr)
		if a.Assume {
			st.assume(g)
			lbl := a.Name
			if lbl == "" {
				lbl = fmt.Sprint(i + 1)
			}
			x.used[fmt.Sprintf("%s: explicit assume[%s] %s \"%s\": %s", x.curFunc, lbl, when, a.Anchor, a.Text)] = true
			o := x.emit(st, fmt.Sprintf("%s/cover.assume[%s]", x.curFunc, lbl), "cover", TFalse, s.Pos(), "assumption is consistent with the path (must NOT be unsat)")
			o.Cover = true
			continue
		}
		nm := fmt.Sprintf("%s/assert.%d", x.curFunc, i+1)
		if a.Name != "" {
			nm = fmt.Sprintf("%s/assert[%s]", x.curFunc, a.Name)
		}
		if c := x.bump("assert:" + nm); c > 1 {
			nm = fmt.Sprintf("%s@%d", nm, c)
		}
		if x.lock == nil && !st.dead() {
			// vacuity guard: the anchor is reachable before the assertion is taken as a fact
			o := x.emit(st, nm+".cover", "cover", TFalse, s.Pos(), "the anchor of the assertion is reachable (must NOT be unsat)")
			o.Cover = true
		}
		x.emit(st, nm, "assert", g, s.Pos(), "assertion "+when+" \""+a.Anchor+"\": "+a.Text)
		st.assume(g)
	}
}

func (x *Xlat) execStmt(st *State, fr *Frame, s ast.Stmt) *Outcomes {
	switch s := s.(type) {
	case *ast.BlockStmt:
		return x.execBlock(st, fr, s.List)
	case *ast.ExprStmt:
		out := &Outcomes{}
		if ce, ok := s.X.(*ast.CallExpr); ok {
			if id, ok := ce.Fun.(*ast.Ident); ok && id.Name == "panic" {
				if _, isB := fr.info().Uses[id].(*types.Builtin); isB {
					x.safety(st, out, "panic", TFalse, s.Pos(), "explicit panic reachable: "+x.src(ce))
					// path ends
					if x.trackPanic {
						// safety() already merged the panic branch
					}
					return out
				}
			}
			x.evalCall(st, fr, out, ce)
			out.normal = st
			return out
		}
		x.eval(st, fr, out, s.X)
		out.normal = st
		return out
	case *ast.AssignStmt:
		out := &Outcomes{}
		x.execAssign(st, fr, out, s)
		out.normal = st
		return out
	case *ast.IncDecStmt:
		out := &Outcomes{}
		pl := x.place(st, fr, out, s.X)
		v := x.load(st, pl)
		one := IntLit(1)
		var nv *Term
		if v.Sort == SReal {
			one = RealLit(1)
		}
		if s.Tok == token.INC {
			nv = App("+", v.Sort, v, one)
		} else {
			nv = App("-", v.Sort, v, one)
		}
		x.store(st, out, pl, nv, s.Pos())
		out.normal = st
		return out
	case *ast.DeclStmt:
		out := &Outcomes{}
		gd, ok := s.Decl.(*ast.GenDecl)
		if !ok {
			x.unsupp(s.Pos(), "declaration")
		}
		for _, sp := range gd.Specs {
			switch sp := sp.(type) {
			case *ast.ValueSpec:
				if gd.Tok == token.CONST {
					continue
				}
				for i, name := range sp.Names {
					v, _ := fr.info().Defs[name].(*types.Var)
					if v == nil {
						continue
					}
					var val *Term
					if i < len(sp.Values) {
						if fl, ok := sp.Values[i].(*ast.FuncLit); ok {
							fr.closures[v] = &Closure{lit: fl, frame: fr, pkg: fr.pkg}
							continue
						}
						val = x.coerce(x.eval(st, fr, out, sp.Values[i]), v.Type())
					} else {
						val = x.tm.Zero(v.Type())
					}
					x.declVar(st, fr, v, val)
				}
			case *ast.TypeSpec:
			}
		}
		out.normal = st
		return out
	case *ast.IfStmt:
		out := &Outcomes{}
		if s.Init != nil {
			o := x.execStmt(st, fr, s.Init)
			x.absorb(out, o)
			st = o.normal
			if st == nil {
				return out
			}
		}
		c := x.evalCond(st, fr, out, s.Cond)
		x.lockBranch(st, c, s.Cond.Pos(), "if "+x.src(s.Cond))
		st1 := st.clone()
		st1.guard(c)
		st2 := st
		st2.guard(Not(c))
		o1 := x.execBlock(st1, fr, s.Body.List)
		x.absorb(out, o1)
		var n2 *State = st2
		if s.Else != nil {
			o2 := x.execStmt(st2, fr, s.Else)
			x.absorb(out, o2)
			n2 = o2.normal
		}
		out.normal = x.merge(o1.normal, n2)
		return out
	case *ast.ReturnStmt:
		out := &Outcomes{}
		if len(s.Results) > 0 {
			if len(s.Results) == 1 && len(fr.results) > 1 {
				vals := x.evalMulti(st, fr, out, s.Results[0])
				for i, v := range vals {
					x.set(st, fr.results[i], x.coerce(v, fr.resultTys[i]))
				}
			} else {
				var vals []*Term
				for i, r := range s.Results {
					if fl, ok := r.(*ast.FuncLit); ok {
						_ = fl
						vals = append(vals, x.ctx.Fresh("closure", SFunc))
						continue
					}
					vals = append(vals, x.coerce(x.eval(st, fr, out, r), fr.resultTys[i]))
				}
				for i, v := range vals {
					x.set(st, fr.results[i], v)
				}
			}
		}
		out.ret = st
		return out
	case *ast.BranchStmt:
		out := &Outcomes{}
		lbl := ""
		if s.Label != nil {
			lbl = s.Label.Name
		}
		switch s.Tok {
		case token.BREAK:
			out.brk = map[string]*State{lbl: st}
		case token.CONTINUE:
			out.cont = map[string]*State{lbl: st}
		case token.GOTO:
			out.gotos = map[string]*State{lbl: st}
		default:
			x.unsupp(s.Pos(), "fallthrough")
		}
		return out
	case *ast.LabeledStmt:
		o := x.execStmtLabeled(st, fr, s.Stmt, s.Label.Name)
		return o
	case *ast.ForStmt:
		return x.execFor(st, fr, s, "")
	case *ast.RangeStmt:
		return x.execRange(st, fr, s, "")
	case *ast.SwitchStmt:
		return x.execSwitch(st, fr, s)
	case *ast.DeferStmt:
		fr.defers = append(fr.defers, s.Call)
		// registration is path dependent: remember it in the state
		st.env[fmt.Sprintf("defer$%d$%d", fr.id, len(fr.defers)-1)] = TTrue
		return &Outcomes{normal: st}
	case *ast.EmptyStmt:
		return &Outcomes{normal: st}
	case *ast.TypeSwitchStmt:
		return x.execTypeSwitch(st, fr, s)
	case *ast.GoStmt:
		x.unsupp(s.Pos(), "go statement")
	case *ast.SendStmt:
		x.unsupp(s.Pos(), "channel send")
	case *ast.SelectStmt:
		x.unsupp(s.Pos(), "select")
	}
	x.unsupp(s.Pos(), "statement %T", s)
	return nil
}

func (x *Xlat) execStmtLabeled(st *State, fr *Frame, s ast.Stmt, label string) *Outcomes {
	switch s := s.(type) {
	case *ast.ForStmt:
		return x.execFor(st, fr, s, label)
	case *ast.RangeStmt:
		return x.execRange(st, fr, s, label)
	}
	return x.execStmt(st, fr, s)
}

func (x *Xlat) execSwitch(st *State, fr *Frame, s *ast.SwitchStmt) *Outcomes {
	out := &Outcomes{}
	if s.Init != nil {
		o := x.execStmt(st, fr, s.Init)
		x.absorb(out, o)
		st = o.normal
		if st == nil {
			return out
		}
	}
	var tag *Term
	if s.Tag != nil {
		tag = x.eval(st, fr, out, s.Tag)
	}
	var normal *State
	cur := st // state in which no previous case matched
	var deflt *ast.CaseClause
	for _, c := range s.Body.List {
		cc := c.(*ast.CaseClause)
		if cc.List == nil {
			deflt = cc
			continue
		}
		var conds []*Term
		for _, e := range cc.List {
			if tag != nil {
				v := x.eval(cur, fr, out, e)
				conds = append(conds, Eq(tag, x.coerceSort(v, tag.Sort)))
			} else {
				conds = append(conds, x.evalCond(cur, fr, out, e))
			}
		}
		c := Or(conds...)
		if len(conds) > 1 || c.Size() > 8 {
			c = x.ctx.Define("case", c)
		}
		x.lockBranch(cur, c, cc.Pos(), "switch case")
		stc := cur.clone()
		stc.guard(c)
		cur.guard(Not(c))
		o := x.execBlock(stc, fr, cc.Body)
		x.absorbSwitch(out, o, &normal)
	}
	if deflt != nil {
		o := x.execBlock(cur, fr, deflt.Body)
		x.absorbSwitch(out, o, &normal)
	} else {
		normal = x.merge(normal, cur)
	}
	out.normal = normal
	return out
}

func (x *Xlat) absorbSwitch(out *Outcomes, o *Outcomes, normal **State) {
	// unlabeled break terminates the switch
	if b, ok := o.brk[""]; ok {
		*normal = x.merge(*normal, b)
		delete(o.brk, "")
	}
	x.absorb(out, o)
	*normal = x.merge(*normal, o.normal)
}

func (x *Xlat) execAssign(st *State, fr *Frame, out *Outcomes, s *ast.AssignStmt) {
	info := fr.info()
	if s.Tok != token.ASSIGN && s.Tok != token.DEFINE {
		// op-assign
		pl := x.place(st, fr, out, s.Lhs[0])
		l := x.load(st, pl)
		r := x.eval(st, fr, out, s.Rhs[0])
		var op token.Token
		switch s.Tok {
		case token.ADD_ASSIGN:
			op = token.ADD
		case token.SUB_ASSIGN:
			op = token.SUB
		case token.MUL_ASSIGN:
			op = token.MUL
		case token.QUO_ASSIGN:
			op = token.QUO
		case token.REM_ASSIGN:
			op = token.REM
		default:
			x.unsupp(s.Pos(), "assignment operator %s", s.Tok)
		}
		t := info.TypeOf(s.Lhs[0])
		v := x.binop(st, out, op, l, r, t, s.Pos())
		x.store(st, out, pl, v, s.Pos())
		return
	}
	// function literal bound to a local
	if len(s.Lhs) == 1 && len(s.Rhs) == 1 {
		if fl, ok := s.Rhs[0].(*ast.FuncLit); ok {
			if id, ok := s.Lhs[0].(*ast.Ident); ok {
				var v *types.Var
				if d, ok := info.Defs[id].(*types.Var); ok {
					v = d
				} else if u, ok := info.Uses[id].(*types.Var); ok {
					v = u
				}
				if v != nil {
					fr.closures[v] = &Closure{lit: fl, frame: fr, pkg: fr.pkg}
					return
				}
			}
		}
	}
	var vals []*Term
	if len(s.Rhs) == 1 && len(s.Lhs) > 1 {
		vals = x.evalMulti(st, fr, out, s.Rhs[0])
	} else {
		for _, r := range s.Rhs {
			vals = append(vals, x.eval(st, fr, out, r))
		}
	}
	// evaluate places first (for existing lvalues), then store
	type tgt struct {
		pl  Place
		def *types.Var
		typ types.Type
	}
	var tgts []tgt
	for _, l := range s.Lhs {
		if id, ok := l.(*ast.Ident); ok {
			if id.Name == "_" {
				tgts = append(tgts, tgt{pl: nil})
				continue
			}
			if s.Tok == token.DEFINE {
				if d, ok := info.Defs[id].(*types.Var); ok {
					tgts = append(tgts, tgt{def: d, typ: d.Type()})
					continue
				}
			}
		}
		tgts = append(tgts, tgt{pl: x.place(st, fr, out, l), typ: info.TypeOf(l)})
	}
	for i, t := range tgts {
		if i >= len(vals) {
			break
		}
		switch {
		case t.def != nil:
			x.declVar(st, fr, t.def, x.coerce(vals[i], t.typ))
		case t.pl != nil:
			x.store(st, out, t.pl, x.coerce(vals[i], t.typ), s.Pos())
		}
	}
}

func (x *Xlat) src(n ast.Node) string {
	return nodeText(x.prog.Fset, n)
}

// execTypeSwitch: dynamic types are not modelled; every clause is possible and the bound variable is an arbitrary value.
func (x *Xlat) execTypeSwitch(st *State, fr *Frame, s *ast.TypeSwitchStmt) *Outcomes {
	out := &Outcomes{}
	info := fr.info()
	if s.Init != nil {
		o := x.execStmt(st, fr, s.Init)
		x.absorb(out, o)
		st = o.normal
		if st == nil {
			return out
		}
	}
	x.models["type switch: every clause possible, bound variable arbitrary (dynamic types not modelled)"] = true
	var normal *State
	for _, c := range s.Body.List {
		cc := c.(*ast.CaseClause)
		stc := st.clone()
		choice := x.ctx.Fresh("tsw", SBool)
		stc.guard(choice)
		if v, ok := info.Implicits[cc].(*types.Var); ok {
			val := x.freshTyped(stc, "tswv", v.Type())
			if val.Sort == SRef && len(cc.List) == 1 {
				stc.assume(Not(Eq(val, TNull)))
			}
			x.declVar(stc, fr, v, val)
		}
		o := x.execBlock(stc, fr, cc.Body)
		x.absorbSwitch(out, o, &normal)
	}
	out.normal = normal
	return out
}
