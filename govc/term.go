package main

// SMT term representation, constructors with light simplification, printer.

import (
	"fmt"
	"math/big"
	"sort"
	"strings"
)

type Sort = string

const (
	SInt   Sort = "Int"
	SReal  Sort = "Real"
	SBool  Sort = "Bool"
	SRef   Sort = "Ref"
	SStr   Sort = "Str"
	SSlice Sort = "Slice"
	SFunc  Sort = "FuncV"
	SIface Sort = "Iface"
	SBV64  Sort = "(_ BitVec 64)"
)

func ArrSort(k, v Sort) Sort { return "(Array " + k + " " + v + ")" }

// splitArrSort returns key and value sorts of an array sort string.
func splitArrSort(s Sort) (Sort, Sort, bool) {
	if !strings.HasPrefix(s, "(Array ") {
		return "", "", false
	}
	body := s[len("(Array ") : len(s)-1]
	// split at top-level space
	depth := 0
	for i, c := range body {
		switch c {
		case '(':
			depth++
		case ')':
			depth--
		case ' ':
			if depth == 0 {
				return body[:i], body[i+1:], true
			}
		}
	}
	return "", "", false
}

type Bind struct {
	Name string
	Sort Sort
}

type Term struct {
	Op    string // operator / function / constant name
	Args  []*Term
	Sort  Sort
	Q     string // "forall" | "exists" | "" ; for quantifiers Args[0] is the body
	Binds []Bind
	Pats  [][]*Term
	lit   bool // literal constant
}

func (t *Term) IsTrue() bool  { return t.Op == "true" && len(t.Args) == 0 }
func (t *Term) IsFalse() bool { return t.Op == "false" && len(t.Args) == 0 }

var (
	TTrue  = &Term{Op: "true", Sort: SBool, lit: true}
	TFalse = &Term{Op: "false", Sort: SBool, lit: true}
	TNull  = &Term{Op: "null", Sort: SRef}
)

func Const(name string, s Sort) *Term { return &Term{Op: name, Sort: s} }

func IntLit(n int64) *Term {
	if n < 0 {
		return &Term{Op: fmt.Sprintf("(- %d)", -n), Sort: SInt, lit: true}
	}
	return &Term{Op: fmt.Sprintf("%d", n), Sort: SInt, lit: true}
}

func BigIntLit(n *big.Int) *Term {
	if n.Sign() < 0 {
		return &Term{Op: "(- " + new(big.Int).Neg(n).String() + ")", Sort: SInt, lit: true}
	}
	return &Term{Op: n.String(), Sort: SInt, lit: true}
}

func RealLitRat(r *big.Rat) *Term {
	neg := r.Sign() < 0
	a := new(big.Rat).Abs(r)
	var s string
	if a.IsInt() {
		s = a.Num().String() + ".0"
	} else {
		s = "(/ " + a.Num().String() + ".0 " + a.Denom().String() + ".0)"
	}
	if neg {
		s = "(- " + s + ")"
	}
	return &Term{Op: s, Sort: SReal, lit: true}
}

func RealLit(f float64) *Term {
	r := new(big.Rat)
	r.SetFloat64(f)
	return RealLitRat(r)
}

func BVLit(n uint64) *Term {
	return &Term{Op: fmt.Sprintf("(_ bv%d 64)", n), Sort: SBV64, lit: true}
}

func App(op string, s Sort, args ...*Term) *Term {
	for _, a := range args {
		if a == nil {
			panic("nil arg in App " + op)
		}
	}
	return &Term{Op: op, Sort: s, Args: args}
}

func And(ts ...*Term) *Term {
	var out []*Term
	for _, t := range ts {
		if t == nil || t.IsTrue() {
			continue
		}
		if t.IsFalse() {
			return TFalse
		}
		if t.Op == "and" && t.Q == "" {
			out = append(out, t.Args...)
		} else {
			out = append(out, t)
		}
	}
	switch len(out) {
	case 0:
		return TTrue
	case 1:
		return out[0]
	}
	return App("and", SBool, out...)
}

func Or(ts ...*Term) *Term {
	var out []*Term
	for _, t := range ts {
		if t == nil || t.IsFalse() {
			continue
		}
		if t.IsTrue() {
			return TTrue
		}
		out = append(out, t)
	}
	switch len(out) {
	case 0:
		return TFalse
	case 1:
		return out[0]
	}
	return App("or", SBool, out...)
}

func Not(t *Term) *Term {
	if t.IsTrue() {
		return TFalse
	}
	if t.IsFalse() {
		return TTrue
	}
	if t.Op == "not" && t.Q == "" {
		return t.Args[0]
	}
	return App("not", SBool, t)
}

func Imp(a, b *Term) *Term {
	if a.IsTrue() {
		return b
	}
	if a.IsFalse() || b.IsTrue() {
		return TTrue
	}
	return App("=>", SBool, a, b)
}

func Eq(a, b *Term) *Term {
	if a == b {
		return TTrue
	}
	if a.lit && b.lit && a.Sort == b.Sort {
		if a.Op == b.Op {
			return TTrue
		}
		return TFalse
	}
	if a.Sort != b.Sort {
		a, b = coerce2(a, b)
	}
	return App("=", SBool, a, b)
}

func Ite(c, a, b *Term) *Term {
	if c.IsTrue() {
		return a
	}
	if c.IsFalse() {
		return b
	}
	if a == b {
		return a
	}
	if a.Sort != b.Sort {
		a, b = coerce2(a, b)
	}
	return App("ite", a.Sort, c, a, b)
}

// coerce2 makes Int/Real mixes Real.
func coerce2(a, b *Term) (*Term, *Term) {
	if a.Sort == SInt && b.Sort == SReal {
		return ToReal(a), b
	}
	if a.Sort == SReal && b.Sort == SInt {
		return a, ToReal(b)
	}
	return a, b
}

func ToReal(a *Term) *Term {
	if a.Sort == SReal {
		return a
	}
	if a.lit && a.Sort == SInt {
		s := a.Op
		if strings.HasPrefix(s, "(- ") {
			return &Term{Op: "(- " + s[3:len(s)-1] + ".0)", Sort: SReal, lit: true}
		}
		return &Term{Op: s + ".0", Sort: SReal, lit: true}
	}
	return App("to_real", SReal, a)
}

func Sel(a, i *Term) *Term {
	_, v, ok := splitArrSort(a.Sort)
	if !ok {
		panic("select on non-array sort " + a.Sort + " term " + a.String())
	}
	return App("select", v, a, i)
}

func Sto(a, i, v *Term) *Term {
	_, vs, ok := splitArrSort(a.Sort)
	if !ok {
		panic("store on non-array sort " + a.Sort)
	}
	if vs == SReal && v.Sort == SInt {
		v = ToReal(v)
	}
	return App("store", a.Sort, a, i, v)
}

func Forall(bs []Bind, body *Term, pats ...[]*Term) *Term {
	if body.IsTrue() {
		return TTrue
	}
	if len(bs) == 0 {
		return body
	}
	return &Term{Q: "forall", Binds: bs, Args: []*Term{body}, Sort: SBool, Pats: pats}
}

func Exists(bs []Bind, body *Term) *Term {
	if len(bs) == 0 {
		return body
	}
	return &Term{Q: "exists", Binds: bs, Args: []*Term{body}, Sort: SBool}
}

func (t *Term) String() string {
	var sb strings.Builder
	t.write(&sb)
	return sb.String()
}

func (t *Term) write(sb *strings.Builder) {
	if t.Q != "" {
		sb.WriteString("(")
		sb.WriteString(t.Q)
		sb.WriteString(" (")
		for _, b := range t.Binds {
			sb.WriteString("(" + b.Name + " " + b.Sort + ")")
		}
		sb.WriteString(") ")
		if len(t.Pats) > 0 {
			sb.WriteString("(! ")
		}
		t.Args[0].write(sb)
		if len(t.Pats) > 0 {
			for _, p := range t.Pats {
				sb.WriteString(" :pattern (")
				for i, x := range p {
					if i > 0 {
						sb.WriteString(" ")
					}
					x.write(sb)
				}
				sb.WriteString(")")
			}
			sb.WriteString(")")
		}
		sb.WriteString(")")
		return
	}
	if len(t.Args) == 0 {
		sb.WriteString(t.Op)
		return
	}
	sb.WriteString("(")
	sb.WriteString(t.Op)
	for _, a := range t.Args {
		sb.WriteString(" ")
		a.write(sb)
	}
	sb.WriteString(")")
}

// Subst replaces constants by name. Bound variables shadow.
func (t *Term) Subst(m map[string]*Term) *Term {
	if len(m) == 0 {
		return t
	}
	return t.subst(m)
}

func (t *Term) subst(m map[string]*Term) *Term {
	if t.Q != "" {
		m2 := m
		for _, b := range t.Binds {
			if _, ok := m2[b.Name]; ok {
				if &m2 == &m || len(m2) == len(m) {
					m2 = map[string]*Term{}
					for k, v := range m {
						m2[k] = v
					}
				}
				delete(m2, b.Name)
			}
		}
		body := t.Args[0].subst(m2)
		var pats [][]*Term
		for _, p := range t.Pats {
			var np []*Term
			for _, x := range p {
				np = append(np, x.subst(m2))
			}
			pats = append(pats, np)
		}
		if body == t.Args[0] && len(pats) == 0 {
			return t
		}
		return &Term{Q: t.Q, Binds: t.Binds, Args: []*Term{body}, Sort: t.Sort, Pats: pats}
	}
	if len(t.Args) == 0 {
		if r, ok := m[t.Op]; ok && !t.lit {
			return r
		}
		return t
	}
	changed := false
	args := make([]*Term, len(t.Args))
	for i, a := range t.Args {
		args[i] = a.subst(m)
		if args[i] != a {
			changed = true
		}
	}
	if !changed {
		return t
	}
	return &Term{Op: t.Op, Args: args, Sort: t.Sort}
}

// FreeSyms collects names of 0-ary non-literal symbols and applied function names.
func (t *Term) FreeSyms(consts map[string]bool, funcs map[string]bool, bound map[string]int) {
	if t.Q != "" {
		for _, b := range t.Binds {
			bound[b.Name]++
		}
		t.Args[0].FreeSyms(consts, funcs, bound)
		for _, p := range t.Pats {
			for _, x := range p {
				x.FreeSyms(consts, funcs, bound)
			}
		}
		for _, b := range t.Binds {
			bound[b.Name]--
		}
		return
	}
	if len(t.Args) == 0 {
		if !t.lit && bound[t.Op] == 0 {
			consts[t.Op] = true
		}
		return
	}
	funcs[t.Op] = true
	for _, a := range t.Args {
		a.FreeSyms(consts, funcs, bound)
	}
}

func (t *Term) Size() int {
	n := 1
	for _, a := range t.Args {
		n += a.Size()
	}
	return n
}

func sortedKeys[V any](m map[string]V) []string {
	ks := make([]string, 0, len(m))
	for k := range m {
		ks = append(ks, k)
	}
	sort.Strings(ks)
	return ks
}
