package main

// Solver portfolio: z3 4.8.12, z3-new 5.1.0, cvc5; first definitive answer wins.

import (
	"bytes"
	"context"
	"crypto/sha1"
	"fmt"
	"os"
	"os/exec"
	"path/filepath"
	"strings"
	"sync"
	"time"
)

type SolveResult struct {
	Status  string // unsat sat unknown timeout error
	Solver  string
	Seconds float64
	Output  string
	Query   string // path of the query file (kept only for failures)
	Answers map[string]string
}

type SolverCfg struct {
	Timeout  time.Duration
	WorkDir  string
	Seed     int
	Agree    bool // thorough: run all solvers and require agreement
	KeepAll  bool
	Solvers  []string
}

func solverCmd(name string, file string, cfg *SolverCfg) (*exec.Cmd, context.CancelFunc) {
	ctx, cancel := context.WithTimeout(context.Background(), cfg.Timeout+2*time.Second)
	secs := int(cfg.Timeout.Seconds())
	if secs < 1 {
		secs = 1
	}
	seed := []string{fmt.Sprintf("smt.random_seed=%d", cfg.Seed), fmt.Sprintf("sat.random_seed=%d", cfg.Seed)}
	// "-e" configurations: E-matching only, as Boogie/Dafny run z3 (auto_config off, MBQI off)
	ematch := []string{"auto_config=false", "smt.mbqi=false"}
	var args []string
	bin := ""
	switch name {
	case "z3-e":
		bin = "/usr/bin/z3"
		args = append(append([]string{"-smt2", fmt.Sprintf("-T:%d", secs)}, ematch...), seed...)
	case "z3new-e":
		bin = "z3-new"
		args = append(append([]string{"-smt2", fmt.Sprintf("-T:%d", secs)}, ematch...), seed...)
	case "z3":
		bin = "/usr/bin/z3"
		args = append([]string{"-smt2", fmt.Sprintf("-T:%d", secs)}, seed...)
	case "z3new":
		bin = "z3-new"
		args = append([]string{"-smt2", fmt.Sprintf("-T:%d", secs)}, seed...)
	default:
		bin = "cvc5"
		args = []string{"--lang=smt2", fmt.Sprintf("--tlimit=%d", secs*1000), fmt.Sprintf("--seed=%d", cfg.Seed)}
	}
	args = append(args, file)
	return exec.CommandContext(ctx, bin, args...), cancel
}

func firstLine(s string) string {
	for _, l := range strings.Split(s, "\n") {
		l = strings.TrimSpace(l)
		if l == "" || strings.HasPrefix(l, ";") || strings.HasPrefix(l, "(warning") || strings.HasPrefix(l, "WARNING") {
			continue
		}
		return l
	}
	return ""
}

// Solve runs the portfolio on a query text.
func Solve(query string, name string, cfg *SolverCfg) *SolveResult {
	return Solve2(query, "", name, cfg)
}

// Solve2: arithQuery (may be empty) is a sound weakening of query; only "unsat" from it counts.
func Solve2(query, arithQuery string, name string, cfg *SolverCfg) *SolveResult {
	h := sha1.Sum([]byte(name))
	file := filepath.Join(cfg.WorkDir, fmt.Sprintf("q_%x.smt2", h[:8]))
	q := query
	if err := os.WriteFile(file, []byte(q), 0o644); err != nil {
		return &SolveResult{Status: "error", Output: err.Error()}
	}
	solvers := cfg.Solvers
	if len(solvers) == 0 {
		solvers = []string{"z3new-e", "z3-e", "z3new", "z3", "cvc5", "z3new-qf"}
	}
	qfFile := strings.TrimSuffix(file, ".smt2") + ".arith.smt2"
	if arithQuery != "" {
		os.WriteFile(qfFile, []byte(arithQuery), 0o644)
		if !cfg.KeepAll {
			defer os.Remove(qfFile)
		}
	} else {
		var keep []string
		for _, sv := range solvers {
			if sv != "z3new-qf" {
				keep = append(keep, sv)
			}
		}
		solvers = keep
	}
	type ans struct {
		solver, status, out string
		secs                float64
	}
	res := &SolveResult{Answers: map[string]string{}}
	ch := make(chan ans, len(solvers))
	var cancels []context.CancelFunc
	var cmds []*exec.Cmd
	var mu sync.Mutex
	for _, s := range solvers {
		s := s
		go func() {
			f := file
			sname := s
			if s == "z3new-qf" {
				f = qfFile
				sname = "z3new"
			}
			cmd, cancel := solverCmd(sname, f, cfg)
			mu.Lock()
			cancels = append(cancels, cancel)
			cmds = append(cmds, cmd)
			mu.Unlock()
			var out bytes.Buffer
			cmd.Stdout = &out
			cmd.Stderr = &out
			t0 := time.Now()
			cmd.Run()
			dt := time.Since(t0).Seconds()
			fl := firstLine(out.String())
			st := "error"
			switch {
			case fl == "unsat", fl == "sat", fl == "unknown":
				st = fl
			case strings.Contains(out.String(), "timeout") || dt >= cfg.Timeout.Seconds()-0.05 || strings.Contains(out.String(), "interrupted"):
				st = "timeout"
			}
			if s == "z3new-qf" && st != "unsat" {
				st = "unknown" // only a proof counts from the weakened query
			}
			ch <- ans{s, st, out.String(), dt}
		}()
	}
	var best *ans
	got := 0
	// agreement mode: once one solver has decided, the others get a grace period to confirm or contradict it; waiting
	// for solvers that only time out would multiply the run time without adding information
	var grace <-chan time.Time
	definitive := 0
	for got < len(solvers) {
		var a ans
		select {
		case a = <-ch:
		case <-grace:
			got = len(solvers)
			continue
		}
		got++
		if a.status == "unsat" || a.status == "sat" {
			definitive++
			if cfg.Agree && grace == nil {
				grace = time.After(15 * time.Second)
			}
			if cfg.Agree && definitive >= 3 {
				got = len(solvers) // three agreeing (or one disagreeing, handled below) answers are enough
			}
		}
		res.Answers[a.solver] = a.status
		if a.status == "unsat" || a.status == "sat" {
			if best == nil {
				b := a
				best = &b
			} else if best.status != a.status {
				res.Status = "disagree"
				res.Output = fmt.Sprintf("%s says %s, %s says %s", best.solver, best.status, a.solver, a.status)
			}
			if !cfg.Agree {
				break
			}
		} else if best == nil {
			if res.Status == "" || a.status == "unknown" {
				res.Status = a.status
				res.Solver = a.solver
				res.Seconds = a.secs
				res.Output = a.out
			}
		}
	}
	mu.Lock()
	for _, c := range cancels {
		c()
	}
	mu.Unlock()
	if res.Status == "disagree" {
		res.Query = file
		return res
	}
	if best != nil {
		res.Status, res.Solver, res.Seconds, res.Output = best.status, best.solver, best.secs, best.out
	}
	if res.Status == "unsat" && !cfg.KeepAll {
		os.Remove(file)
	} else {
		res.Query = file
	}
	if len(res.Output) > 4000 {
		res.Output = res.Output[:4000] + "...(truncated)"
	}
	return res
}

// SolveAll discharges obligations in parallel.
func SolveAll(obls []*Obligation, cfg *SolverCfg, par int) {
	if par < 1 {
		par = 1
	}
	sem := make(chan struct{}, par)
	var wg sync.WaitGroup
	for _, o := range obls {
		if o.Result != nil {
			continue
		}
		o := o
		wg.Add(1)
		sem <- struct{}{}
		go func() {
			defer wg.Done()
			defer func() { <-sem }()
			c := *cfg
			if o.Cover {
				// vacuity guards: any solver that refutes the state counts. Quick tier: the two e-matching configurations (they
				// answer within a fraction of a second); thorough tier: the whole portfolio with more time.
				if cfg.Agree {
					c.Timeout = 20 * time.Second
					c.Solvers = []string{"z3new-e", "z3-e", "z3new", "cvc5"}
				} else {
					c.Timeout = 3 * time.Second
					c.Solvers = []string{"z3new-e", "z3-e"}
				}
				c.Agree = true
			}
			goal := o.Goal
			q := o.Ctx.Query(o.Hyps, goal, QueryOpts{ProduceModels: false})
			q = "; obligation " + o.Name + "\n; " + strings.ReplaceAll(o.Text, "\n", " ") + "\n" + q
			aq := ""
			if !o.Cover && hasNonlinear(goal) {
				aq = o.Ctx.QueryArith(o.Hyps, goal)
			}
			o.Result = Solve2(q, aq, o.Name, &c)
		}()
	}
	wg.Wait()
}

// hasNonlinear: the goal multiplies or divides two non-literal terms (worth trying the arithmetic abstraction).
func hasNonlinear(t *Term) bool {
	if t == nil {
		return false
	}
	if (t.Op == "*" || t.Op == "/") && t.Q == "" && len(t.Args) == 2 && !t.Args[0].lit && !t.Args[1].lit {
		return true
	}
	for _, a := range t.Args {
		if hasNonlinear(a) {
			return true
		}
	}
	return false
}
