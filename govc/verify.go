package main

// Per-function verification driver and lemma checking.

import (
	"fmt"
	"go/types"
	"runtime/debug"
	"sort"
	"strings"
)

type FuncReport struct {
	Key      string
	Obls     []*Obligation
	Err      string // outside-subset / spec error
	Notes    []string
	Used     []string // contracts of callees assumed
	Inlined  []string
	Havoced  []string
	Models   []string
	Trusted  string
}

func newXlat(pr *Prog, eff *Effects) *Xlat {
	ctx := NewCtx()
	x := newXlat2(pr, eff, ctx)
	activeTM = x.tm
	return x
}

func newXlat2(pr *Prog, eff *Effects, ctx *Ctx) *Xlat {
	return &Xlat{prog: pr, ctx: ctx, tm: NewTypeMap(ctx), counts: map[string]int{}, eff: eff,
		used: map[string]bool{}, inlined: map[string]bool{}, havoced: map[string]bool{}, models: map[string]bool{},
		specInfos: map[string]*specFnInfo{}, specPlaceholder: map[string]bool{}}
}

type VerifyOpts struct {
	View       string
	Lockstep   map[string]bool // non-nil: lockstep (x2 scaling) mode; the set of functions verified that way
	TrackPanic bool
	NoSafety   bool
}

func VerifyFunc(pr *Prog, eff *Effects, fi *FuncInfo, opts VerifyOpts) (rep *FuncReport) {
	x := newXlat(pr, eff)
	x.fi = fi
	x.curFunc = fi.Key
	x.trackPanic = opts.TrackPanic
	x.noSafety = opts.NoSafety
	x.view = opts.View
	x.nn = opts.View == "C01"
	if opts.Lockstep != nil {
		x.lock = &lockCtx{coupled: map[string]bool{}, funcs: opts.Lockstep, two: RealLit(2), defTwin: map[string]*Term{}}
		x.noSafety = true
	}
	rep = &FuncReport{Key: fi.Key}
	defer func() {
		if r := recover(); r != nil {
			switch e := r.(type) {
			case unsupported:
				rep.Err = "outside-subset: " + e.msg
			case specError:
				rep.Err = "spec-error: " + e.msg
			default:
				rep.Err = fmt.Sprintf("engine-panic: %v\n%s", r, debug.Stack())
			}
		}
		rep.Obls = x.obls
		rep.Notes = x.notes
		rep.Used = sortedKeys(x.used)
		rep.Inlined = sortedKeys(x.inlined)
		rep.Havoced = sortedKeys(x.havoced)
		rep.Models = sortedKeys(x.models)
	}()
	spec := fi.Spec
	if spec != nil && spec.Trusted != "" {
		rep.Trusted = spec.Trusted
		return rep
	}
	if spec != nil && len(spec.EnsPanic) > 0 {
		x.trackPanic = true
	}
	fr := x.newFrame(fi, nil, nil, nil)
	fr.top = true
	st := NewState()
	ps := x.paramVars(fi)
	sig := fi.Obj.Type().(*types.Signature)
	fnType, fnBody := fi.Decl.Type, fi.Decl.Body
	if fi.Lit != nil {
		// a function literal verified on its own: the enclosing function's parameters and the locals declared before the
		// literal (the variables it can capture) hold arbitrary values
		pfr := x.newFrame(fi.Parent, nil, nil, nil)
		for _, p := range x.paramVars(fi.Parent) {
			if p == nil || p.Name() == "_" {
				continue
			}
			if _, isFn := types.Unalias(p.Type()).Underlying().(*types.Signature); isFn {
				continue
			}
			if isRefParamType(p.Type()) {
				et := derefType(p.Type())
				k := "deref$" + p.Name()
				st.env[k] = x.freshTyped(st, "cap$"+p.Name(), et)
				pfr.refParams[p] = PVar{k, et}
				continue
			}
			x.declVar(st, pfr, p, x.freshTyped(st, "cap$"+p.Name(), p.Type()))
		}
		if scope := fi.Pkg.TypesInfo.Scopes[fi.Parent.Decl.Type]; scope != nil {
			var decl func(sc *types.Scope)
			decl = func(sc *types.Scope) {
				for _, n := range sc.Names() {
					if v, ok := sc.Lookup(n).(*types.Var); ok && v.Pos() < fi.Lit.Pos() {
						if _, _, have := pfr.lookupVar(v); !have {
							if _, isFn := types.Unalias(v.Type()).Underlying().(*types.Signature); isFn {
								continue
							}
							x.declVar(st, pfr, v, x.freshTyped(st, "cap$"+v.Name(), v.Type()))
						}
					}
				}
				for i := 0; i < sc.NumChildren(); i++ {
					c := sc.Child(i)
					if c.Pos() <= fi.Lit.Pos() && fi.Lit.End() <= c.End() {
						decl(c)
					}
				}
			}
			decl(scope)
		}
		fr = x.newFrame(fi, fi.Lit, pfr, nil)
		fr.top = true
		fnType, fnBody = fi.Lit.Type, fi.Lit.Body
		sig = fi.Pkg.TypesInfo.TypeOf(fi.Lit).(*types.Signature)
		ps = nil
		for _, f := range fi.Lit.Type.Params.List {
			for _, n := range f.Names {
				if v, ok := fi.Pkg.TypesInfo.Defs[n].(*types.Var); ok {
					ps = append(ps, v)
				}
			}
		}
	}
	if fi.Lit == nil {
		x.rp = &ReplayInfo{X: x, FI: fi, Params: ps, Sig: sig}
	}
	for i, p := range ps {
		if p == nil || p.Name() == "_" {
			continue
		}
		if isRefParamType(p.Type()) {
			et := derefType(p.Type())
			key := "deref$" + p.Name()
			v := x.ctx.Named("p$deref$"+p.Name(), x.tm.SortOf(et))
			st.env[key] = v
			if f := x.typeFacts(v, et); !f.IsTrue() {
				st.assume(f)
			}
			switch v.Sort {
			case SRef:
				st.assume(Or(Eq(v, TNull), Sel(x.initial(allocKey, ArrSort(SRef, SBool)), v)))
			case SSlice:
				st.assume(Or(Eq(SArr(v), IntLit(0)), Sel(x.initial(arrAllocKey, ArrSort(SInt, SBool)), SArr(v))))
			}
			fr.refParams[p] = PVar{key, et}
			continue
		}
		if _, isFn := types.Unalias(p.Type()).Underlying().(*types.Signature); isFn {
			// function-typed parameter: calls through it are approximated
			x.declVar(st, fr, p, x.ctx.Named("p$"+p.Name(), SFunc))
			continue
		}
		v := x.ctx.Named("p$"+p.Name(), x.tm.SortOf(p.Type()))
		x.declVar(st, fr, p, v)
		if f := x.typeFacts(v, p.Type()); !f.IsTrue() {
			st.assume(f)
		}
		switch v.Sort {
		case SRef:
			st.assume(Or(Eq(v, TNull), Sel(x.initial(allocKey, ArrSort(SRef, SBool)), v)))
		case SSlice:
			st.assume(Or(Eq(SArr(v), IntLit(0)), Sel(x.initial(arrAllocKey, ArrSort(SInt, SBool)), SArr(v))))
		}
		if x.nn && v.Sort == SRef && (isPtrToStruct(p.Type()) || isMapType(p.Type())) {
			st.assume(Not(Eq(v, TNull))) // A11: pointer parameters are non-nil (asserted at call sites that are not inlined)
		}
		if i == 0 && sig.Recv() != nil && v.Sort == SRef {
			if _, isPtr := types.Unalias(p.Type()).Underlying().(*types.Pointer); isPtr {
				st.assume(Not(Eq(v, TNull))) // implicit precondition, asserted at call sites
			}
		}
	}
	// ghost parameters
	if spec != nil {
		for _, g := range spec.Ghosts {
			gt, err := pr.LookupType(g.Type, fi.Pkg.Types)
			if err != nil {
				panic(specError{err.Error()})
			}
			k := x.ghostKey(fr, g.Name)
			fr.ghost[g.Name] = k
			st.env[k] = x.ctx.Named("ghost$"+g.Name, x.specSort(gt))
			fr.ghostTypes()[g.Name] = gt
		}
	}
	// initial region axioms are attached lazily in get(); requires:
	entryParams := map[string]SpecVal{}
	for _, p := range ps {
		if p == nil || p.Name() == "_" {
			continue
		}
		if pl, ok := fr.refParams[p]; ok {
			entryParams[p.Name()] = SpecVal{place: pl, typ: p.Type()}
			continue
		}
		if k, _, ok := fr.lookupVar(p); ok {
			entryParams[p.Name()] = SpecVal{t: st.env[k], typ: p.Type()}
		}
	}
	if spec != nil {
		env := x.newSpecEnvFrame(st, fr, fnBody.Lbrace+1)
		for _, r := range spec.Requires {
			if !r.inView(x.view) {
				continue
			}
			st.assume(env.evalBool(r.Expr))
		}
		// vacuity guard: the preconditions must be satisfiable
		if len(spec.Requires) > 0 {
			o := x.emit(st, fi.Key+"/cover.requires", "cover", TFalse, fi.Decl.Pos(), "requires are satisfiable (must NOT be unsat)")
			o.Cover = true
		}
	}
	fr.entry = st.clone()
	if spec != nil && spec.Decr != nil {
		env := x.newSpecEnvFrame(st, fr, fnBody.Lbrace+1)
		x.entryMeasure = x.ctx.Define("measure0", env.eval(spec.Decr.Expr).t)
	}
	if spec != nil && spec.HasMod {
		// frame: everything the body may write (inferred, transitive) must be covered by the declared modifies
		decl := map[string]bool{}
		for _, k := range x.expandModifies(spec.Modifies, fi) {
			decl[k] = true
		}
		bodyEff := eff.Of(fi)
		if fi.Lit != nil {
			bodyEff = eff.OfLit(fi.Pkg, fi.Lit)
		}
		for _, k := range sortedKeys(bodyEff.regions) {
			if !decl[k] {
				o := x.emit(st, fi.Key+"/frame.modifies["+k+"]", "frame", TFalse, fi.Decl.Pos(), "the body may write "+k+" which the modifies clause does not list")
				o.Result = &SolveResult{Status: "frame-violation", Solver: "effects"}
			}
		}
	}
	rvs, rts := x.resultVars(fi.Pkg.TypesInfo, fnType)
	for i, rv := range rvs {
		key := fmt.Sprintf("r$%d$%d", fr.id, i)
		if rv != nil {
			key = x.declVar(st, fr, rv, x.tm.Zero(rts[i]))
		} else {
			st.env[key] = x.tm.Zero(rts[i])
		}
		fr.results = append(fr.results, key)
		fr.resultTys = append(fr.resultTys, rts[i])
	}
	o := x.execBlock(st, fr, fnBody.List)
	if len(o.brk) > 0 || len(o.cont) > 0 || len(o.gotos) > 0 {
		x.unsupp(fi.Decl.Pos(), "stray branch at function level")
	}
	fin := x.merge(o.normal, o.ret)
	pan := o.pan
	// deferred calls run on both exits
	// deferred calls run on both exits; recover() in a deferred function turns a panicking exit into a normal one
	procDefer := func(s *State, isPan bool, i int) (rfin, rpan *State) {
		if s == nil || s.dead() {
			return nil, nil
		}
		keep := func(t *State) {
			if isPan {
				rpan = x.merge(rpan, t)
			} else {
				rfin = x.merge(rfin, t)
			}
		}
		flag, ok := s.env[fmt.Sprintf("defer$%d$%d", fr.id, i)]
		if !ok {
			keep(s) // never registered on this path
			return
		}
		reg := s.clone()
		reg.guard(flag)
		if isPan {
			reg.env["$panicking"] = TTrue
		} else {
			reg.env["$panicking"] = TFalse
		}
		od := &Outcomes{}
		x.evalCall(reg, fr, od, fr.defers[i])
		rpan = x.merge(rpan, od.pan) // the deferred function itself panicked (or re-panicked)
		if !reg.dead() {
			pk := reg.env["$panicking"]
			switch {
			case pk == nil || pk.IsFalse():
				rfin = x.merge(rfin, reg)
			case pk.IsTrue():
				rpan = x.merge(rpan, reg)
			default:
				still := reg.clone()
				still.guard(pk)
				rpan = x.merge(rpan, still)
				reg.guard(Not(pk))
				rfin = x.merge(rfin, reg)
			}
		}
		if !flag.IsTrue() {
			unreg := s
			unreg.guard(Not(flag))
			keep(unreg)
		}
		return
	}
	for i := len(fr.defers) - 1; i >= 0; i-- {
		f1, p1 := procDefer(fin, false, i)
		f2, p2 := procDefer(pan, true, i)
		fin = x.merge(f1, f2)
		pan = x.merge(p1, p2)
	}
	if x.lock != nil && fin != nil && !fin.dead() {
		keys := x.lockAllKeys(fin)
		keys = append(keys, fr.results...)
		for _, p := range ps {
			if pl, ok := fr.refParams[p]; ok {
				if pv, ok := pl.(PVar); ok {
					keys = append(keys, pv.key)
				}
			}
		}
		x.lockState(fin, keys, "exit", fi.Decl.Pos())
	}
	if spec != nil {
		if fin != nil && !fin.dead() && x.lock == nil && len(spec.Requires) > 0 {
			// vacuity guard: the function can return (an unsatisfiable return state would make every postcondition trivial)
			o := x.emit(fin, fi.Key+"/cover.exit", "cover", TFalse, fi.Decl.Pos(), "the function can return under its preconditions (must NOT be unsat)")
			o.Cover = true
		}
		if fin != nil && !fin.dead() {
			env := x.newSpecEnvFrame(fin, fr, fnBody.Lbrace+1)
			env.pos = 0
			env.vars = entryParams
			env.old = fr.entry
			var rs []*Term
			for i, k := range fr.results {
				rs = append(rs, x.get(fin, k, x.tm.SortOf(rts[i])))
			}
			env.setResults(fi, rs)
			for i, e := range spec.Ensures {
				if !e.inView(x.view) {
					continue
				}
				nm := fmt.Sprintf("%s/ensures.%d", fi.Key, i+1)
				if e.Name != "" {
					nm = fmt.Sprintf("%s/ensures[%s]", fi.Key, e.Name)
				}
				g := env.evalBool(e.Expr)
				x.emit(fin, nm, "ensures", g, fi.Decl.Pos(), "postcondition: "+e.Text).Clause = e
			}
		}
		if len(spec.EnsPanic) > 0 && pan != nil && !pan.dead() {
			env := x.newSpecEnvFrame(pan, fr, fnBody.Lbrace+1)
			env.pos = 0
			env.vars = entryParams
			env.old = fr.entry
			for i, e := range spec.EnsPanic {
				nm := fmt.Sprintf("%s/ensures_on_panic.%d", fi.Key, i+1)
				x.emit(pan, nm, "ensures", env.evalBool(e.Expr), fi.Decl.Pos(), "postcondition on panic: "+e.Text)
			}
		}
		for _, a := range spec.Asserts {
			if !a.Hit && a.inView(x.view) {
				rep.Err = fmt.Sprintf("spec-error: assert anchor %q of %s matches no statement", a.Anchor, fi.Key)
			}
		}
		for _, ls := range spec.Loops {
			if !ls.Matched {
				// a loop contract none of whose clauses belongs to the view at hand is not needed by this property:
				// the loop may have moved into a helper; only the properties that use its invariants must notice
				used := ls.Decr != nil && ls.Decr.inView(x.view)
				for _, c := range ls.Invs {
					used = used || c.inView(x.view)
				}
				if used {
					rep.Err = fmt.Sprintf("spec-error: loop contract %q of %s matches no loop", ls.Key, fi.Key)
				}
			}
		}
	}
	return rep
}

func (fr *Frame) ghostTypes() map[string]types.Type {
	if fr.gtypes == nil {
		fr.gtypes = map[string]types.Type{}
	}
	return fr.gtypes
}

// VerifyLemma checks a lemma over an arbitrary heap.
func VerifyLemma(pr *Prog, eff *Effects, l *Lemma) (rep *FuncReport) {
	x := newXlat(pr, eff)
	x.curFunc = "lemma/" + l.Name
	rep = &FuncReport{Key: "lemma/" + l.Name}
	defer func() {
		if r := recover(); r != nil {
			switch e := r.(type) {
			case unsupported:
				rep.Err = "outside-subset: " + e.msg
			case specError:
				rep.Err = "spec-error: " + e.msg
			default:
				rep.Err = fmt.Sprintf("engine-panic: %v\n%s", r, debug.Stack())
			}
		}
		rep.Obls = x.obls
	}()
	st := NewState()
	var pkgT *types.Package
	for _, p := range pr.Pkgs {
		if pkgShort(p.PkgPath) == l.Pkg {
			pkgT = p.Types
		}
	}
	env := x.newSpecEnv(st, st, pkgT)
	for _, p := range l.Params {
		t, err := pr.LookupType(p.Type, pkgT)
		if err != nil {
			panic(specError{err.Error()})
		}
		v := x.ctx.Named("l$"+p.Name, x.specSort(t))
		env.vars[p.Name] = SpecVal{t: v, typ: t}
		if f := x.typeFacts(v, t); !f.IsTrue() {
			st.assume(f)
		}
	}
	for _, h := range l.Hyps {
		st.assume(env.evalBool(h.Expr))
	}
	if len(l.Hyps) > 0 {
		o := x.emit(st, "lemma/"+l.Name+"/cover.given", "cover", TFalse, 0, "lemma hypotheses are satisfiable (must NOT be unsat)")
		o.Cover = true
	}
	if l.Body == nil {
		panic(specError{"lemma " + l.Name + " has no body"})
	}
	x.emit(st, "lemma/"+l.Name, "lemma", env.evalBool(l.Body), 0, "lemma "+l.Name)
	return rep
}

func summarize(reps []*FuncReport) string {
	var sb strings.Builder
	for _, r := range reps {
		ok, bad := 0, 0
		for _, o := range r.Obls {
			if o.Result == nil {
				continue
			}
			if o.Cover {
				if o.Result.Status != "unsat" {
					ok++
				} else {
					bad++
				}
				continue
			}
			if o.Result.Status == "unsat" {
				ok++
			} else {
				bad++
			}
		}
		fmt.Fprintf(&sb, "%-50s obligations=%d ok=%d failed=%d %s\n", r.Key, len(r.Obls), ok, bad, r.Err)
		sort.Slice(r.Obls, func(i, j int) bool { return r.Obls[i].Name < r.Obls[j].Name })
		for _, o := range r.Obls {
			if o.Result == nil {
				continue
			}
			good := o.Result.Status == "unsat"
			if o.Cover {
				good = !good
			}
			if good && !o.Cover && o.Result.Seconds > 5 {
				fmt.Fprintf(&sb, "    SLOW %-60s %s (%s %.2fs)\n", o.Name, o.Result.Status, o.Result.Solver, o.Result.Seconds)
			}
			if !good {
				fmt.Fprintf(&sb, "    FAIL %-60s %s (%s %.2fs) %s:%d %s\n", o.Name, o.Result.Status, o.Result.Solver, o.Result.Seconds, shortFile(o.Pos.Filename), o.Pos.Line, o.Text)
			}
		}
	}
	return sb.String()
}
