package main

import (
	"sort"
	"flag"
	"fmt"
	"os"
	"path/filepath"
	"runtime"
	"strings"
	"time"
)

func usage() {
	fmt.Fprintln(os.Stderr, `usage:
  govc func  [-repo /repo] [-spec dir] [-t secs] [-keep] <funcKey|lemma/Name>...   verify functions, print a summary
  govc list  [-repo /repo]                                                          list functions and contracts
  govc check -property Cxx [-tier quick|thorough]                                   property check (MANIFEST entry point)
  govc selftest                                                                     must-fail corpus`)
	os.Exit(2)
}

func verifRoot() string {
	if v := os.Getenv("VERIF_ROOT"); v != "" {
		return v
	}
	exe, err := os.Executable()
	if err == nil {
		d := filepath.Dir(filepath.Dir(exe))
		if _, err := os.Stat(filepath.Join(d, "properties.jsonl")); err == nil {
			return d
		}
	}
	return "/verif"
}

func workDir() string {
	base := os.Getenv("XDG_CACHE_HOME")
	if base == "" {
		base = filepath.Join(verifRoot(), ".cache")
	}
	d := filepath.Join(base, "govc-work")
	os.MkdirAll(d, 0o755)
	return d
}

func main() {
	if len(os.Args) < 2 {
		usage()
	}
	switch os.Args[1] {
	case "func":
		cmdFunc(os.Args[2:])
	case "list":
		cmdList(os.Args[2:])
	case "check":
		os.Exit(cmdCheck(os.Args[2:]))
	case "selftest":
		os.Exit(cmdSelftest(os.Args[2:]))
	case "sweep":
		cmdSweep(os.Args[2:])
	default:
		usage()
	}
}

func cmdList(args []string) {
	fs := flag.NewFlagSet("list", flag.ExitOnError)
	repo := fs.String("repo", "/repo", "repository root")
	fs.Parse(args)
	pr, err := LoadProg(*repo, []string{filepath.Join(verifRoot(), "spec")})
	if err != nil {
		fmt.Fprintln(os.Stderr, err)
		os.Exit(2)
	}
	for _, k := range pr.FuncKeys {
		fi := pr.Funcs[k]
		c := ""
		if fi.Spec != nil {
			c = fmt.Sprintf("contract: %d requires, %d ensures, %d loops", len(fi.Spec.Requires), len(fi.Spec.Ensures), len(fi.Spec.Loops))
		}
		fmt.Printf("%-60s %s\n", k, c)
	}
	for _, e := range pr.SpecErrs {
		fmt.Println("SPEC ERROR:", e)
	}
	for _, e := range pr.Orphans {
		fmt.Println("ORPHAN:", e)
	}
}

func cmdFunc(args []string) {
	fs := flag.NewFlagSet("func", flag.ExitOnError)
	repo := fs.String("repo", "/repo", "repository root")
	tmo := fs.Int("t", 10, "solver timeout seconds")
	keep := fs.Bool("keep", false, "keep all query files")
	nosafe := fs.Bool("nosafety", false, "do not emit safety obligations")
	dump := fs.Bool("dump", false, "print obligations")
	seed := fs.Int("seed", 0, "solver seed")
	view := fs.String("view", "", "property view")
	lockstep := fs.Bool("lockstep", false, "lockstep (x2 scaling) mode; the listed functions form the lockstep set")
	fs.Parse(args)
	t0 := time.Now()
	pr, err := LoadProg(*repo, []string{filepath.Join(verifRoot(), "spec")})
	if err != nil {
		fmt.Fprintln(os.Stderr, err)
		os.Exit(2)
	}
	for _, e := range pr.SpecErrs {
		fmt.Println("SPEC ERROR:", e)
	}
	for _, e := range pr.Orphans {
		fmt.Println("ORPHAN:", e)
	}
	eff := ComputeEffects(pr)
	fmt.Printf("loaded in %.2fs\n", time.Since(t0).Seconds())
	var reps []*FuncReport
	var all []*Obligation
	for _, k := range fs.Args() {
		if strings.HasPrefix(k, "lemma/") {
			found := false
			for _, l := range pr.Lemmas {
				if "lemma/"+l.Name == k {
					r := VerifyLemma(pr, eff, l)
					reps = append(reps, r)
					all = append(all, r.Obls...)
					found = true
				}
			}
			if !found {
				fmt.Println("unknown lemma", k)
			}
			continue
		}
		matched := false
		for _, fk := range pr.FuncKeys {
			if fk == k || (strings.HasSuffix(k, "*") && strings.HasPrefix(fk, strings.TrimSuffix(k, "*"))) {
				matched = true
				vo := VerifyOpts{NoSafety: *nosafe, View: *view}
				if *lockstep {
					vo.Lockstep = map[string]bool{}
					for _, a := range fs.Args() {
						vo.Lockstep[a] = true
					}
				}
				r := VerifyFunc(pr, eff, pr.Funcs[fk], vo)
				reps = append(reps, r)
				all = append(all, r.Obls...)
			}
		}
		if !matched {
			if lf, ok := pr.LitFuncs[k]; ok {
				r := VerifyFunc(pr, eff, lf, VerifyOpts{NoSafety: *nosafe, View: *view})
				reps = append(reps, r)
				all = append(all, r.Obls...)
				matched = true
			}
		}
		if !matched {
			fmt.Println("unknown function", k)
		}
	}
	fmt.Printf("translated in %.2fs: %d obligations\n", time.Since(t0).Seconds(), len(all))
	cfg := &SolverCfg{Timeout: time.Duration(*tmo) * time.Second, WorkDir: workDir(), KeepAll: *keep, Seed: *seed}
	SolveAll(all, cfg, runtime.NumCPU()/2)
	fmt.Print(summarize(reps))
	if *dump {
		for _, o := range all {
			fmt.Printf("%s [%s] %s -> %s %s\n", o.Name, o.Kind, o.Text, o.Result.Status, o.Result.Query)
		}
	}
	for _, r := range reps {
		if len(r.Used)+len(r.Havoced)+len(r.Models) > 0 {
			fmt.Printf("%s: assumed contracts=%v havoced=%v models=%v inlined=%v\n", r.Key, r.Used, r.Havoced, r.Models, r.Inlined)
		}
		for _, n := range r.Notes {
			fmt.Println("  note:", n)
		}
	}
	fmt.Printf("total %.2fs\n", time.Since(t0).Seconds())
}


// cmdSweep: safety obligations of every function reachable from Layout, one line per function (developer aid and C01 triage).
func cmdSweep(args []string) {
	fs := flag.NewFlagSet("sweep", flag.ExitOnError)
	repo := fs.String("repo", "/repo", "repository root")
	tmo := fs.Int("t", 5, "solver timeout seconds")
	fs.Parse(args)
	pr, err := LoadProg(*repo, []string{filepath.Join(verifRoot(), "spec")})
	if err != nil {
		fmt.Fprintln(os.Stderr, err)
		os.Exit(2)
	}
	eff := ComputeEffects(pr)
	reach := eff.Reachable(pr.Funcs["autog.Layout"])
	var keys []string
	for fi := range reach {
		keys = append(keys, fi.Key)
	}
	sort.Strings(keys)
	var all []*Obligation
	reps := map[string]*FuncReport{}
	for _, k := range keys {
		r := VerifyFunc(pr, eff, pr.Funcs[k], VerifyOpts{View: "C01"})
		reps[k] = r
		for _, o := range r.Obls {
			if !o.Cover {
				all = append(all, o)
			}
		}
	}
	cfg := &SolverCfg{Timeout: time.Duration(*tmo) * time.Second, WorkDir: workDir()}
	SolveAll(all, cfg, runtime.NumCPU()/2)
	clean := 0
	for _, k := range keys {
		r := reps[k]
		n, bad := 0, 0
		var fails []string
		for _, o := range r.Obls {
			if o.Result == nil || o.Cover {
				continue
			}
			n++
			if o.Result.Status != "unsat" {
				bad++
				if len(fails) < 4 {
					fails = append(fails, fmt.Sprintf("%s@%d", strings.TrimPrefix(o.Name, k+"/"), o.Pos.Line))
				}
			}
		}
		st := "CLEAN"
		if bad > 0 || r.Err != "" {
			st = "OPEN "
		} else {
			clean++
		}
		fmt.Printf("%s %-58s safety=%d failed=%d %s %s\n", st, k, n, bad, strings.Join(fails, " "), r.Err)
	}
	fmt.Printf("%d functions reachable from Layout, %d clean\n", len(keys), clean)
}
