package main

// Loading /repo's working tree (go/packages, -tags=verif), indexing functions and contract files.

import (
	"fmt"
	"go/ast"
	"go/token"
	"go/types"
	"os"
	"path/filepath"
	"sort"
	"strings"

	"golang.org/x/tools/go/packages"
)

const modPath = "github.com/nulab/autog"

type FuncInfo struct {
	Key  string // short key: pkg.Func or pkg.Recv.Func
	Pkg  *packages.Package
	Decl *ast.FuncDecl
	Obj  *types.Func
	Spec *FuncSpec
	Lits []*ast.FuncLit // function literals inside, in source order
	Lit    *ast.FuncLit // non-nil: this entry is the N-th function literal of Parent (key Parent.Key$N)
	Parent *FuncInfo
}

type Prog struct {
	Root    string
	Fset    *token.FileSet
	Pkgs    []*packages.Package
	ByPath  map[string]*packages.Package
	Funcs   map[string]*FuncInfo
	ByObj   map[*types.Func]*FuncInfo
	FuncKeys []string
	SpecFns map[string]*SpecFunc // by name (global namespace)
	Lemmas  []*Lemma
	SpecErrs []string
	Orphans []string // contracts whose function does not exist
	Trusted []string
	LitFuncs map[string]*FuncInfo
}

func pkgShort(path string) string {
	rest := strings.TrimPrefix(path, modPath)
	switch rest {
	case "":
		return "autog"
	case "/graph":
		return "pubgraph"
	}
	if i := strings.LastIndex(rest, "/"); i >= 0 {
		return rest[i+1:]
	}
	return rest
}

func funcKey(obj *types.Func) string {
	sig := obj.Type().(*types.Signature)
	p := ""
	if obj.Pkg() != nil {
		p = pkgShort(obj.Pkg().Path())
	}
	if r := sig.Recv(); r != nil {
		t := r.Type()
		if pt, ok := t.(*types.Pointer); ok {
			t = pt.Elem()
		}
		switch nt := t.(type) {
		case *types.Named:
			return p + "." + nt.Obj().Name() + "." + obj.Name()
		case *types.Alias:
			return p + "." + nt.Obj().Name() + "." + obj.Name()
		}
		return p + ".?." + obj.Name()
	}
	return p + "." + obj.Name()
}

func LoadProg(root string, extraSpecDirs []string) (*Prog, error) {
	cfg := &packages.Config{
		Mode:       packages.LoadAllSyntax,
		Dir:        root,
		BuildFlags: []string{"-tags=verif"},
		Env:        append(os.Environ(), "GOFLAGS=-mod=mod", "GOPROXY=off", "GOSUMDB=off", "GOTOOLCHAIN=local"),
	}
	pkgs, err := packages.Load(cfg, "./...")
	if err != nil {
		return nil, err
	}
	pr := &Prog{Root: root, ByPath: map[string]*packages.Package{}, Funcs: map[string]*FuncInfo{}, ByObj: map[*types.Func]*FuncInfo{}, SpecFns: map[string]*SpecFunc{}}
	sort.Slice(pkgs, func(i, j int) bool { return pkgs[i].PkgPath < pkgs[j].PkgPath })
	for _, p := range pkgs {
		if len(p.Errors) > 0 {
			return nil, fmt.Errorf("package %s does not type-check: %v", p.PkgPath, p.Errors[0])
		}
		if !strings.HasPrefix(p.PkgPath, modPath) {
			continue
		}
		pr.Pkgs = append(pr.Pkgs, p)
		pr.ByPath[p.PkgPath] = p
		pr.Fset = p.Fset
	}
	for _, p := range pr.Pkgs {
		for _, f := range p.Syntax {
			fname := p.Fset.Position(f.Pos()).Filename
			if strings.HasSuffix(fname, "_test.go") {
				continue
			}
			for _, d := range f.Decls {
				fd, ok := d.(*ast.FuncDecl)
				if !ok || fd.Body == nil {
					continue
				}
				obj, _ := p.TypesInfo.Defs[fd.Name].(*types.Func)
				if obj == nil {
					continue
				}
				fi := &FuncInfo{Key: funcKey(obj), Pkg: p, Decl: fd, Obj: obj}
				ast.Inspect(fd.Body, func(n ast.Node) bool {
					if fl, ok := n.(*ast.FuncLit); ok {
						fi.Lits = append(fi.Lits, fl)
					}
					return true
				})
				pr.Funcs[fi.Key] = fi
				pr.ByObj[obj] = fi
			}
		}
	}
	for k := range pr.Funcs {
		pr.FuncKeys = append(pr.FuncKeys, k)
	}
	sort.Strings(pr.FuncKeys)
	// function literals are addressable as Func$N (N-th literal of Func in source order) so that they can carry contracts
	pr.LitFuncs = map[string]*FuncInfo{}
	for _, k := range pr.FuncKeys {
		fi := pr.Funcs[k]
		for i, l := range fi.Lits {
			lk := fmt.Sprintf("%s$%d", k, i+1)
			pr.LitFuncs[lk] = &FuncInfo{Key: lk, Pkg: fi.Pkg, Decl: fi.Decl, Obj: fi.Obj, Lit: l, Parent: fi}
		}
	}

	// contract files: every verif_contracts*.go in the module packages + extra spec dirs
	var files [][2]string // path, pkg short
	for _, p := range pr.Pkgs {
		for _, gf := range p.GoFiles {
			if strings.HasPrefix(filepath.Base(gf), "verif_contracts") {
				files = append(files, [2]string{gf, pkgShort(p.PkgPath)})
			}
		}
	}
	for _, d := range extraSpecDirs {
		ms, _ := filepath.Glob(filepath.Join(d, "*.spec"))
		sort.Strings(ms)
		for _, m := range ms {
			files = append(files, [2]string{m, ""})
		}
	}
	for _, f := range files {
		sf, err := ReadSpecFile(f[0], f[1])
		if err != nil {
			pr.SpecErrs = append(pr.SpecErrs, err.Error())
			continue
		}
		for _, fs := range sf.Funcs {
			key := fs.Name
			if !strings.Contains(key, ".") || f[1] != "" && !strings.HasPrefix(key, f[1]+".") {
				// relative to the package of the file
				if f[1] != "" {
					if _, ok := pr.Funcs[f[1]+"."+key]; ok {
						key = f[1] + "." + key
					}
				}
			}
			fi, ok := pr.Funcs[key]
			if !ok {
				if lf, isLit := pr.LitFuncs[key]; isLit {
					fi, ok = lf, true
				} else if lf, isLit := pr.LitFuncs[f[1]+"."+key]; isLit && f[1] != "" {
					fi, ok, key = lf, true, f[1]+"."+key
				}
			}
			if !ok {
				pr.Orphans = append(pr.Orphans, fmt.Sprintf("%s:%d: contract for unknown function %s", f[0], fs.Line, fs.Name))
				continue
			}
			if fi.Spec != nil {
				pr.SpecErrs = append(pr.SpecErrs, fmt.Sprintf("%s:%d: duplicate contract for %s", f[0], fs.Line, key))
				continue
			}
			fs.Name = key
			fi.Spec = fs
			if fs.Trusted != "" {
				pr.Trusted = append(pr.Trusted, key+": "+fs.Trusted)
			}
		}
		for _, s := range sf.Specs {
			if _, dup := pr.SpecFns[s.Name]; dup {
				pr.SpecErrs = append(pr.SpecErrs, fmt.Sprintf("%s:%d: duplicate spec function %s", f[0], s.Line, s.Name))
				continue
			}
			pr.SpecFns[s.Name] = s
		}
		pr.Lemmas = append(pr.Lemmas, sf.Lemmas...)
	}
	return pr, nil
}

// LookupType resolves a Go-like type text used in specs.
func (pr *Prog) LookupType(text string, from *types.Package) (types.Type, error) {
	text = strings.TrimSpace(text)
	switch {
	case strings.HasPrefix(text, "*"):
		t, err := pr.LookupType(text[1:], from)
		if err != nil {
			return nil, err
		}
		return types.NewPointer(t), nil
	case strings.HasPrefix(text, "[]"):
		t, err := pr.LookupType(text[2:], from)
		if err != nil {
			return nil, err
		}
		return types.NewSlice(t), nil
	case strings.HasPrefix(text, "["):
		k := strings.Index(text, "]")
		var n int64
		fmt.Sscan(text[1:k], &n)
		t, err := pr.LookupType(text[k+1:], from)
		if err != nil {
			return nil, err
		}
		return types.NewArray(t, n), nil
	case strings.HasPrefix(text, "map["):
		depth := 0
		for i := 3; i < len(text); i++ {
			if text[i] == '[' {
				depth++
			} else if text[i] == ']' {
				depth--
				if depth == 0 {
					k, err := pr.LookupType(text[4:i], from)
					if err != nil {
						return nil, err
					}
					v, err := pr.LookupType(text[i+1:], from)
					if err != nil {
						return nil, err
					}
					return types.NewMap(k, v), nil
				}
			}
		}
	}
	switch text {
	case "int":
		return types.Typ[types.Int], nil
	case "uint":
		return types.Typ[types.Uint], nil
	case "uint64":
		return types.Typ[types.Uint64], nil
	case "float64", "real":
		return types.Typ[types.Float64], nil
	case "bool":
		return types.Typ[types.Bool], nil
	case "string":
		return types.Typ[types.String], nil
	}
	pkgName, name := "", text
	if i := strings.Index(text, "."); i >= 0 {
		pkgName, name = text[:i], text[i+1:]
	}
	// search order: from package, then packages by short name, then internal/graph, then all
	var cands []*types.Package
	if pkgName != "" {
		for _, p := range pr.Pkgs {
			if pkgShort(p.PkgPath) == pkgName || p.Types.Name() == pkgName && pkgShort(p.PkgPath) != "pubgraph" {
				cands = append(cands, p.Types)
			}
		}
	} else {
		if from != nil {
			cands = append(cands, from)
		}
		if p, ok := pr.ByPath[modPath+"/internal/graph"]; ok {
			cands = append(cands, p.Types)
		}
		for _, p := range pr.Pkgs {
			cands = append(cands, p.Types)
		}
	}
	for _, c := range cands {
		if o := c.Scope().Lookup(name); o != nil {
			if tn, ok := o.(*types.TypeName); ok {
				return tn.Type(), nil
			}
		}
	}
	return nil, fmt.Errorf("unknown type %q in spec", text)
}
