package main

// Go types -> SMT sorts; struct layouts; heap region keys.

import (
	"fmt"
	"go/types"
	"strings"
)

type TypeMap struct {
	ctx     *Ctx
	dtCache map[string]Sort // type string -> datatype sort
	subst   []map[*types.TypeParam]types.Type // instantiation stack while generic bodies are inlined
}

// resolve substitutes type parameters of the generic bodies currently being inlined.
func (tm *TypeMap) resolve(t types.Type) types.Type {
	if tp, ok := types.Unalias(t).(*types.TypeParam); ok {
		for i := len(tm.subst) - 1; i >= 0; i-- {
			if r, ok := tm.subst[i][tp]; ok {
				return tm.resolve(r)
			}
		}
	}
	return t
}

var activeTM *TypeMap // used by typeName for type arguments (single-threaded translation per Xlat)


func NewTypeMap(ctx *Ctx) *TypeMap { return &TypeMap{ctx: ctx, dtCache: map[string]Sort{}} }

func isFloat(t types.Type) bool {
	b, ok := t.Underlying().(*types.Basic)
	return ok && b.Info()&types.IsFloat != 0
}

func isInteger(t types.Type) bool {
	b, ok := t.Underlying().(*types.Basic)
	return ok && b.Info()&types.IsInteger != 0
}

func isUnsigned(t types.Type) bool {
	b, ok := t.Underlying().(*types.Basic)
	return ok && b.Info()&types.IsUnsigned != 0
}

func isString(t types.Type) bool {
	b, ok := t.Underlying().(*types.Basic)
	return ok && b.Info()&types.IsString != 0
}

func isBool(t types.Type) bool {
	b, ok := t.Underlying().(*types.Basic)
	return ok && b.Info()&types.IsBoolean != 0
}

func structOf(t types.Type) *types.Struct {
	t = types.Unalias(t)
	if p, ok := t.Underlying().(*types.Pointer); ok {
		t = p.Elem()
	}
	s, _ := types.Unalias(t).Underlying().(*types.Struct)
	return s
}

func isPtrToStruct(t types.Type) bool {
	p, ok := types.Unalias(t).Underlying().(*types.Pointer)
	if !ok {
		return false
	}
	_, ok = types.Unalias(p.Elem()).Underlying().(*types.Struct)
	return ok
}

// typeName gives a stable short name for named struct types.
func typeName(t types.Type) string {
	t = types.Unalias(t)
	if p, ok := t.(*types.Pointer); ok {
		t = types.Unalias(p.Elem())
	}
	if n, ok := t.(*types.Named); ok {
		p := ""
		if n.Obj().Pkg() != nil {
			p = pkgShort(n.Obj().Pkg().Path()) + "."
		}
		s := p + n.Obj().Name()
		if ta := n.TypeArgs(); ta != nil && ta.Len() > 0 {
			var as []string
			for i := 0; i < ta.Len(); i++ {
				at := ta.At(i)
				if activeTM != nil {
					at = activeTM.resolve(at)
				}
				as = append(as, sanitize(types.TypeString(at, func(p *types.Package) string { return pkgShort(p.Path()) })))
			}
			s += "<" + strings.Join(as, ",") + ">"
		}
		return s
	}
	return sanitize(types.TypeString(t, func(p *types.Package) string { return pkgShort(p.Path()) }))
}

func (tm *TypeMap) SortOf(t types.Type) Sort {
	t = types.Unalias(tm.resolve(t))
	switch u := t.Underlying().(type) {
	case *types.Basic:
		switch {
		case u.Info()&types.IsBoolean != 0:
			return SBool
		case u.Info()&types.IsInteger != 0:
			return SInt
		case u.Info()&types.IsFloat != 0:
			return SReal
		case u.Info()&types.IsString != 0:
			return SStr
		case u.Kind() == types.UntypedNil:
			return SRef
		case u.Kind() == types.UnsafePointer:
			return SRef
		}
		return SInt
	case *types.Pointer:
		return SRef
	case *types.Slice:
		tm.SortOf(u.Elem())
		return SSlice
	case *types.Map:
		return SRef
	case *types.Chan:
		return SRef
	case *types.Signature:
		return SFunc
	case *types.Interface:
		return SIface
	case *types.Array:
		es := tm.SortOf(u.Elem())
		name := fmt.Sprintf("Arr%d_%s", u.Len(), sortId(es))
		if _, ok := tm.dtCache[name]; !ok {
			tm.dtCache[name] = name
			d := &Datatype{Name: name, Ctor: "mk_" + name}
			for i := int64(0); i < u.Len(); i++ {
				d.Fields = append(d.Fields, DTField{fmt.Sprintf("%s_a%d", name, i), es})
			}
			tm.ctx.AddDatatype(d)
		}
		return name
	case *types.Struct:
		name := "St_" + sanitize(typeName(t))
		if _, ok := tm.dtCache[name]; ok {
			return name
		}
		tm.dtCache[name] = name
		d := &Datatype{Name: name, Ctor: "mk_" + name}
		for i := 0; i < u.NumFields(); i++ {
			f := u.Field(i)
			if skipField(f) {
				continue
			}
			d.Fields = append(d.Fields, DTField{name + "_" + f.Name(), tm.SortOf(f.Type())})
		}
		if len(d.Fields) == 0 {
			d.Fields = append(d.Fields, DTField{name + "_unit", SBool})
		}
		tm.ctx.AddDatatype(d)
		return name
	case *types.TypeParam:
		return "TP_" + u.Obj().Name()
	case *types.Tuple:
		return "Tuple"
	}
	return SIface
}

func skipField(f *types.Var) bool {
	if f.Name() == "_" {
		return true
	}
	return false
}

func sortId(s Sort) string {
	r := strings.NewReplacer("(", "", ")", "", " ", "_")
	return r.Replace(s)
}

// dtField returns accessor name of field i (skipping blanks) for a struct datatype.
func (tm *TypeMap) StructAccessor(t types.Type, f *types.Var) string {
	return tm.SortOf(t) + "_" + f.Name()
}

func (tm *TypeMap) ArrAccessor(t types.Type, i int64) string {
	return fmt.Sprintf("%s_a%d", tm.SortOf(t), i)
}

// Zero value term of a Go type.
func (tm *TypeMap) Zero(t types.Type) *Term {
	t = types.Unalias(tm.resolve(t))
	switch u := t.Underlying().(type) {
	case *types.Basic:
		switch {
		case u.Info()&types.IsBoolean != 0:
			return TFalse
		case u.Info()&types.IsInteger != 0:
			return IntLit(0)
		case u.Info()&types.IsFloat != 0:
			return RealLit(0)
		case u.Info()&types.IsString != 0:
			return tm.ctx.Named("str$empty", SStr)
		}
		return IntLit(0)
	case *types.Pointer, *types.Map, *types.Chan:
		return TNull
	case *types.Slice:
		return NilSlice()
	case *types.Signature:
		return tm.ctx.Named("func$nil", SFunc)
	case *types.Interface:
		return tm.ctx.Named("iface$nil", SIface)
	case *types.Array:
		s := tm.SortOf(t)
		z := tm.Zero(u.Elem())
		args := make([]*Term, u.Len())
		for i := range args {
			args[i] = z
		}
		return App("mk_"+s, s, args...)
	case *types.Struct:
		s := tm.SortOf(t)
		var args []*Term
		for i := 0; i < u.NumFields(); i++ {
			if skipField(u.Field(i)) {
				continue
			}
			args = append(args, tm.Zero(u.Field(i).Type()))
		}
		if len(args) == 0 {
			args = append(args, TTrue)
		}
		return App("mk_"+s, s, args...)
	}
	return tm.ctx.Fresh("zero", tm.SortOf(t))
}

func NilSlice() *Term {
	return App("mk_Slice", SSlice, IntLit(0), IntLit(0), IntLit(0), IntLit(0))
}

func SArr(s *Term) *Term { return sliceProj("s_arr", s, 0) }
func SOff(s *Term) *Term { return sliceProj("s_off", s, 1) }
func SLen(s *Term) *Term { return sliceProj("s_len", s, 2) }
func SCap(s *Term) *Term { return sliceProj("s_cap", s, 3) }

func sliceProj(acc string, s *Term, i int) *Term {
	if s.Op == "mk_Slice" && len(s.Args) == 4 {
		return s.Args[i]
	}
	return App(acc, SInt, s)
}

func MkSlice(arr, off, ln, cp *Term) *Term { return App("mk_Slice", SSlice, arr, off, ln, cp) }

// Heap region keys ----------------------------------------------------------

// Leaf describes a flattened leaf field of a heap-resident struct.
type Leaf struct {
	Key  string     // region key, e.g. H$graph.Node.Size.X
	Path []int      // field index path
	Type types.Type // leaf type
}

// FieldKey builds the region key for a path within named struct type T.
func fieldKey(T types.Type, names []string) string {
	return "H$" + typeName(T) + "." + strings.Join(names, ".")
}

// Leaves enumerates the leaf regions under path prefix within struct type T (T is the heap object type).
func (tm *TypeMap) Leaves(T types.Type, st *types.Struct, prefixNames []string) []Leaf {
	var out []Leaf
	for i := 0; i < st.NumFields(); i++ {
		f := st.Field(i)
		if skipField(f) {
			continue
		}
		names := append(append([]string{}, prefixNames...), f.Name())
		if sub, ok := types.Unalias(f.Type()).Underlying().(*types.Struct); ok {
			for _, l := range tm.Leaves(T, sub, names) {
				l.Path = append([]int{i}, l.Path...)
				out = append(out, l)
			}
			continue
		}
		out = append(out, Leaf{Key: fieldKey(T, names), Path: []int{i}, Type: f.Type()})
	}
	return out
}

func (tm *TypeMap) HeapSort(leafType types.Type) Sort {
	return ArrSort(SRef, tm.SortOf(leafType))
}

func elemsKey(es Sort) string { return "Elems$" + sortId(es) }

// ElemsKey: the element heap of slices with element type et. Reference-sorted elements (pointers, maps, channels)
// get one heap per Go element type: Go's type system keeps a []*Node and a []*Edge from ever sharing a backing array,
// so a write to one cannot be seen through the other.
func (tm *TypeMap) ElemsKey(et types.Type) string {
	es := tm.SortOf(et)
	if es != SRef {
		return elemsKey(es)
	}
	rt := types.Unalias(tm.resolve(et))
	name := ""
	switch u := rt.Underlying().(type) {
	case *types.Pointer:
		name = "P_" + typeName(u.Elem())
	default:
		name = sanitize(types.TypeString(rt, func(p *types.Package) string { return pkgShort(p.Path()) }))
	}
	return "Elems$Ref$" + sanitize(name)
}
func elemsSort(es Sort) Sort  { return ArrSort(SInt, ArrSort(SInt, es)) }

func mapValKey(k, v Sort) string { return "MapVal$" + sortId(k) + "$" + sortId(v) }
// the key set of a map lives in a heap of its own per (key sort, value sort), like the values: a callee that inserts
// into a map[*Node]*Node must not disturb what is known about the key set of a map[*Node]float64
func mapDomKey(k, v Sort) string { return "MapDom$" + sortId(k) + "$" + sortId(v) }

const mapLenKey = "MapLen"
const allocKey = "Alloc"
const arrAllocKey = "ArrAlloc"

func boxKey(s Sort) string { return "Box$" + sortId(s) }
