package main

// Calls: builtins, conversions, stdlib models, module functions (contract / inline / havoc), closures.

import (
	"fmt"
	"go/ast"
	"go/token"
	"go/types"
	"strings"
)

const maxInlineDepth = 10

// Arg is an evaluated call argument: a value or a reference (place) for pointer-to-non-struct parameters.
type Arg struct {
	v     *Term
	place Place
	clo   *Closure
	expr  ast.Expr
}

func isRefParamType(t types.Type) bool {
	p, ok := types.Unalias(t).Underlying().(*types.Pointer)
	if !ok {
		return false
	}
	_, isStruct := types.Unalias(p.Elem()).Underlying().(*types.Struct)
	return !isStruct
}

func (x *Xlat) typeFacts(v *Term, t types.Type) *Term {
	switch {
	case v.Sort == SSlice:
		if v.Op == "mk_Slice" {
			return TTrue
		}
		return wfSlice(v)
	case isUnsigned(t) && v.Sort == SInt:
		return App(">=", SBool, v, IntLit(0))
	case x.ctx.dtByName[v.Sort] != nil && v.Sort != SSlice:
		// struct value: slices held in its fields (also of nested struct fields) are well-formed
		return x.structSliceFacts(v, 0)
	case v.Sort == SRef && t != nil:
		// dynamic type: references of different Go types never alias
		if tag := x.typeTag(t); tag != nil {
			return Or(Eq(v, TNull), Eq(App("dtype", SInt, v), tag))
		}
	}
	return TTrue
}

// typeTag: a number identifying the Go type of the object a reference points to (pointer-to-struct and map types).
func (x *Xlat) typeTag(t types.Type) *Term {
	t = types.Unalias(x.tm.resolve(t))
	var name string
	switch u := t.Underlying().(type) {
	case *types.Pointer:
		if _, ok := types.Unalias(u.Elem()).Underlying().(*types.Struct); !ok {
			return nil
		}
		name = "*" + typeName(u.Elem())
	case *types.Map:
		name = "map[" + x.tm.SortOf(u.Key()) + "]" + typeName(u.Elem()) + "/" + x.tm.SortOf(u.Elem())
		if _, isStruct := types.Unalias(u.Elem()).Underlying().(*types.Struct); !isStruct {
			name = "map[" + x.tm.SortOf(u.Key()) + "]" + x.tm.SortOf(u.Elem())
			// maps whose element types share a sort but differ as Go types (e.g. two pointer types) keep separate tags
			if _, isPtr := types.Unalias(u.Elem()).Underlying().(*types.Pointer); isPtr {
				name += "/" + typeName(u.Elem())
			}
		}
	default:
		return nil
	}
	if x.typeTags == nil {
		x.typeTags = map[string]int{}
	}
	id, ok := x.typeTags[name]
	if !ok {
		id = len(x.typeTags) + 1
		x.typeTags[name] = id
	}
	x.ctx.DeclareFunc(&FuncDecl{Name: "dtype", Params: []Sort{SRef}, Ret: SInt})
	return IntLit(int64(id))
}

func (x *Xlat) structSliceFacts(v *Term, depth int) *Term {
	d := x.ctx.dtByName[v.Sort]
	if d == nil || depth > 3 {
		return TTrue
	}
	var cs []*Term
	for _, f := range d.Fields {
		fv := App(f.Name, f.Sort, v)
		switch {
		case f.Sort == SSlice:
			cs = append(cs, wfSlice(fv))
		case f.Sort != v.Sort && x.ctx.dtByName[f.Sort] != nil:
			if c := x.structSliceFacts(fv, depth+1); !c.IsTrue() {
				cs = append(cs, c)
			}
		}
	}
	if len(cs) == 0 {
		return TTrue
	}
	return And(cs...)
}

func wfSlice(s *Term) *Term {
	return And(App(">=", SBool, SLen(s), IntLit(0)), App(">=", SBool, SCap(s), SLen(s)), App(">=", SBool, SOff(s), IntLit(0)),
		Imp(Eq(SArr(s), IntLit(0)), Eq(SCap(s), IntLit(0))))
}

func (x *Xlat) freshTyped(st *State, base string, t types.Type) *Term {
	v := x.ctx.Fresh(base, x.tm.SortOf(t))
	if f := x.typeFacts(v, t); !f.IsTrue() {
		st.assume(f)
	}
	return v
}

// regionAxiom returns the well-formedness fact for a region value.
// regionAxiom: well-formedness of a region value. alloc / arrAlloc are the allocation sets at the same program
// point (Go's memory safety: every reference or slice stored in the heap points to allocated memory, or is nil).
func regionAxiom(key string, v *Term, alloc, arrAlloc *Term) *Term {
	_, vs, ok := splitArrSort(v.Sort)
	if !ok {
		return nil
	}
	if vs == SRef && strings.HasPrefix(key, "H$") && alloc != nil {
		b := Const("r!", SRef)
		return Forall([]Bind{{"r!", SRef}}, Or(Eq(Sel(v, b), TNull), Sel(alloc, Sel(v, b))))
	}
	if strings.HasPrefix(key, "Elems$Ref") && alloc != nil {
		a, i := Const("a!", SInt), Const("i!", SInt)
		e := Sel(Sel(v, a), i)
		return Forall([]Bind{{"a!", SInt}, {"i!", SInt}}, Or(Eq(e, TNull), Sel(alloc, e)))
	}
	if vs == SSlice && strings.HasPrefix(key, "H$") && arrAlloc != nil {
		b := Const("r!", SRef)
		return Forall([]Bind{{"r!", SRef}}, And(wfSlice(Sel(v, b)), Or(Eq(SArr(Sel(v, b)), IntLit(0)), Sel(arrAlloc, SArr(Sel(v, b))))))
	}
	if strings.HasPrefix(key, "MapVal$") && arrAlloc != nil {
		// slices held as map values are well-formed and point to allocated arrays (or are nil)
		if k1, inner, ok1 := splitArrSort(v.Sort); ok1 {
			if k2, vs2, ok2 := splitArrSort(inner); ok2 && vs2 == SSlice {
				a, i := Const("m!", k1), Const("k!", k2)
				e := Sel(Sel(v, a), i)
				return Forall([]Bind{{"m!", k1}, {"k!", k2}}, And(wfSlice(e), Or(Eq(SArr(e), IntLit(0)), Sel(arrAlloc, SArr(e)))), []*Term{e})
			}
		}
	}
	if key == mapLenKey {
		b := Const("m!", SRef)
		return Forall([]Bind{{"m!", SRef}}, App(">=", SBool, Sel(v, b), IntLit(0)))
	}
	if vs == SSlice && strings.HasPrefix(key, "H$") {
		b := Const("r!", SRef)
		return Forall([]Bind{{"r!", SRef}}, wfSlice(Sel(v, b)))
	}
	if strings.HasPrefix(key, "Elems$Slice") {
		a, i := Const("a!", SInt), Const("i!", SInt)
		return Forall([]Bind{{"a!", SInt}, {"i!", SInt}}, wfSlice(Sel(Sel(v, a), i)))
	}
	return nil
}

// structElemsAxiom: slices held in the fields of struct values stored in slices are well-formed slices.
func (x *Xlat) structElemsAxiom(key string, v *Term) *Term {
	if !strings.HasPrefix(key, "Elems$St_") {
		return nil
	}
	_, inner, ok := splitArrSort(v.Sort)
	if !ok {
		return nil
	}
	_, es, ok := splitArrSort(inner)
	if !ok || x.ctx.dtByName[es] == nil {
		return nil
	}
	a, i := Const("a!", SInt), Const("i!", SInt)
	el := Sel(Sel(v, a), i)
	f := x.structSliceFacts(el, 0)
	if f.IsTrue() {
		return nil
	}
	return Forall([]Bind{{"a!", SInt}, {"i!", SInt}}, f, []*Term{el})
}

func (x *Xlat) havocRegion(st *State, key string) {
	cur, ok := st.env[key]
	var s Sort
	if ok {
		s = cur.Sort
	} else {
		s = x.regionSort(key)
		if s == "" {
			return
		}
	}
	if strings.HasPrefix(key, "G$") {
		wk := "GW$" + key[2:]
		if cur, ok := st.env[wk]; !ok || !cur.IsTrue() {
			st.env[wk] = x.ctx.Fresh(wk, SBool)
		}
	}
	x.ensureSort(s)
	v := x.ctx.Fresh(key, s)
	if ax := regionAxiom(key, v, x.get(st, allocKey, ArrSort(SRef, SBool)), x.get(st, arrAllocKey, ArrSort(SInt, SBool))); ax != nil {
		x.ctx.constAxioms[v.Op] = append(x.ctx.constAxioms[v.Op], ax)
	}
	if ax := x.structElemsAxiom(key, v); ax != nil {
		x.ctx.constAxioms[v.Op] = append(x.ctx.constAxioms[v.Op], ax)
	}
	if key == allocKey || key == arrAllocKey {
		// allocation only grows
		before := cur
		if !ok {
			before = x.initial(key, s)
		}
		ks, _, _ := splitArrSort(s)
		b := Const("a!", ks)
		x.ctx.constAxioms[v.Op] = append(x.ctx.constAxioms[v.Op], Forall([]Bind{{"a!", ks}}, Imp(Sel(before, b), Sel(v, b)), []*Term{Sel(before, b)}, []*Term{Sel(v, b)}))
	}
	st.env[key] = v
	if x.lock != nil && x.lockHavocOK {
		x.lockCouple(v)
	}
}

// regionSort finds the sort of a region from the registry filled by the effects analysis / first use.
func (x *Xlat) regionSort(key string) Sort {
	if s, ok := x.ctx.consts[sanitize(key+"@0")]; ok {
		return s
	}
	if s, ok := x.eff.regionSorts[key]; ok {
		return s
	}
	return ""
}

// ---------------------------------------------------------------------------

func (x *Xlat) evalCall(st *State, fr *Frame, out *Outcomes, ce *ast.CallExpr) []*Term {
	info := fr.info()
	// conversion
	if tv, ok := info.Types[ce.Fun]; ok && tv.IsType() {
		return []*Term{x.conversion(st, fr, out, ce, tv.Type)}
	}
	fun := ast.Unparen(ce.Fun)
	// builtin
	if id, ok := fun.(*ast.Ident); ok {
		if b, ok := info.Uses[id].(*types.Builtin); ok {
			return x.builtin(st, fr, out, ce, b.Name())
		}
	}
	var recv ast.Expr
	var callee *types.Func
	var embeddedPath []int
	switch f := fun.(type) {
	case *ast.Ident:
		switch o := info.Uses[f].(type) {
		case *types.Func:
			callee = o
		case *types.Var:
			if c, ok := fr.lookupClosure(o); ok {
				return x.inlineClosure(st, fr, out, c, x.evalArgsSig(st, fr, out, ce.Args, c.pkg.TypesInfo.TypeOf(c.lit).(*types.Signature)), ce.Pos())
			}
			return x.callUnknownFuncValue(st, fr, out, ce, o.Name())
		}
	case *ast.SelectorExpr:
		if sel, ok := info.Selections[f]; ok {
			switch sel.Kind() {
			case types.MethodVal:
				callee = sel.Obj().(*types.Func)
				recv = f.X
				if idx := sel.Index(); len(idx) > 1 {
					embeddedPath = idx[:len(idx)-1]
				}
			case types.FieldVal:
				return x.callUnknownFuncValue(st, fr, out, ce, x.src(f))
			}
		} else if o, ok := info.Uses[f.Sel].(*types.Func); ok {
			callee = o
		}
	case *ast.IndexExpr: // explicit instantiation f[T](...)
		if id, ok := f.X.(*ast.Ident); ok {
			if o, ok := info.Uses[id].(*types.Func); ok {
				callee = o
			}
		}
	case *ast.FuncLit:
		c := &Closure{lit: f, frame: fr, pkg: fr.pkg}
		return x.inlineClosure(st, fr, out, c, x.evalArgsSig(st, fr, out, ce.Args, info.TypeOf(f).(*types.Signature)), ce.Pos())
	}
	if callee == nil {
		x.unsupp(ce.Pos(), "call of %s", x.src(ce.Fun))
	}
	callee = callee.Origin()
	sig := callee.Type().(*types.Signature)
	// interface method call
	if recv != nil {
		if _, isIface := types.Unalias(info.TypeOf(recv)).Underlying().(*types.Interface); isIface {
			return x.callInterface(st, fr, out, ce, recv, callee)
		}
	}
	full := ""
	if callee.Pkg() != nil {
		full = callee.Pkg().Path() + "." + callee.Name()
		if r := sig.Recv(); r != nil {
			full = callee.Pkg().Path() + "." + recvTypeName(r.Type()) + "." + callee.Name()
		}
	}
	if fi, ok := x.prog.ByObj[callee]; ok {
		// generic instantiation: bind the callee's type parameters while its body is inlined
		if targs := x.typeArgsOf(fr, ce, recv, sig); len(targs) > 0 {
			x.tm.subst = append(x.tm.subst, targs)
			defer func() { x.tm.subst = x.tm.subst[:len(x.tm.subst)-1] }()
		}
		var args []Arg
		if len(embeddedPath) > 0 {
			// promoted method: the receiver is reached through embedded fields
			pl := x.selectPath(st, fr, out, recv, embeddedPath, ce.Pos())
			rt := sig.Recv().Type()
			_, recvIsPtr := types.Unalias(rt).Underlying().(*types.Pointer)
			var ft types.Type
			switch q := pl.(type) {
			case PHeap:
				ft = q.typ
			case PField:
				ft = q.f.Type()
			}
			_, fieldIsPtr := types.Unalias(ft).Underlying().(*types.Pointer)
			switch {
			case recvIsPtr && fieldIsPtr:
				v := x.load(st, pl)
				args = append(args, Arg{v: v})
			case recvIsPtr && !fieldIsPtr:
				args = append(args, Arg{place: pl})
			case !recvIsPtr && fieldIsPtr:
				v := x.load(st, pl)
				pt := types.Unalias(ft).Underlying().(*types.Pointer)
				x.safety(st, out, "nil", Not(Eq(v, TNull)), ce.Pos(), "nil dereference for promoted value receiver")
				args = append(args, Arg{v: x.load(st, PHeap{v, pt.Elem(), nil, pt.Elem()})})
			default:
				args = append(args, Arg{v: x.load(st, pl)})
			}
			args = append(args, x.evalArgsSig(st, fr, out, ce.Args, sig)...)
		} else {
			args = x.evalArgs(st, fr, out, recv, ce.Args, sig, info)
		}
		return x.callModule(st, fr, out, fi, args, ce.Pos())
	}
	return x.stdlib(st, fr, out, ce, recv, full, sig)
}

func recvTypeName(t types.Type) string {
	if p, ok := t.(*types.Pointer); ok {
		t = p.Elem()
	}
	if n, ok := types.Unalias(t).(*types.Named); ok {
		return n.Obj().Name()
	}
	return "?"
}

// evalArgs evaluates receiver + arguments according to the callee signature.
func (x *Xlat) evalArgs(st *State, fr *Frame, out *Outcomes, recv ast.Expr, argExprs []ast.Expr, sig *types.Signature, info *types.Info) []Arg {
	var args []Arg
	if recv != nil {
		rt := sig.Recv().Type()
		if isRefParamType(rt) {
			// pointer receiver on a non-struct named type: pass the place of the operand
			if ue, ok := ast.Unparen(recv).(*ast.UnaryExpr); ok && ue.Op == token.AND {
				args = append(args, Arg{place: x.place(st, fr, out, ue.X), expr: recv})
			} else if _, isPtr := types.Unalias(info.TypeOf(recv)).Underlying().(*types.Pointer); isPtr {
				// already a pointer value: must be a ref param of ours
				if id, ok := ast.Unparen(recv).(*ast.Ident); ok {
					if v, ok := info.ObjectOf(id).(*types.Var); ok {
						if p, ok := fr.lookupRefParam(v); ok {
							args = append(args, Arg{place: p, expr: recv})
						}
					}
				}
				if len(args) == 0 {
					x.unsupp(recv.Pos(), "pointer receiver value %s", x.src(recv))
				}
			} else {
				args = append(args, Arg{place: x.place(st, fr, out, recv), expr: recv})
			}
		} else if _, isPtr := types.Unalias(rt).Underlying().(*types.Pointer); isPtr {
			// pointer-to-struct receiver
			if _, argIsPtr := types.Unalias(info.TypeOf(recv)).Underlying().(*types.Pointer); argIsPtr {
				if id, ok := ast.Unparen(recv).(*ast.Ident); ok {
					if v, ok := info.ObjectOf(id).(*types.Var); ok {
						if p, ok := fr.lookupRefParam(v); ok {
							args = append(args, Arg{place: p, expr: recv})
						}
					}
				}
				if len(args) == 0 {
					args = append(args, Arg{v: x.eval(st, fr, out, recv), expr: recv})
				}
			} else {
				// auto address of an addressable struct: heap resident?
				pl := x.place(st, fr, out, recv)
				if ph, ok := pl.(PHeap); ok && len(ph.names) == 0 {
					args = append(args, Arg{v: ph.ref, expr: recv})
				} else {
					// local struct value or struct embedded in a heap object: pass by reference (place)
					args = append(args, Arg{place: pl, expr: recv})
				}
			}
		} else {
			// value receiver
			v := x.eval(st, fr, out, recv)
			if _, argIsPtr := types.Unalias(info.TypeOf(recv)).Underlying().(*types.Pointer); argIsPtr {
				// implicit deref
				pt := types.Unalias(info.TypeOf(recv)).Underlying().(*types.Pointer)
				x.safety(st, out, "nil", Not(Eq(v, TNull)), recv.Pos(), "nil dereference for value receiver")
				v = x.load(st, PHeap{v, pt.Elem(), nil, pt.Elem()})
			}
			args = append(args, Arg{v: v, expr: recv})
		}
	}
	args = append(args, x.evalArgsSig(st, fr, out, argExprs, sig)...)
	return args
}

func (x *Xlat) evalArgsSig(st *State, fr *Frame, out *Outcomes, argExprs []ast.Expr, sig *types.Signature) []Arg {
	var args []Arg
	info := fr.info()
	np := sig.Params().Len()
	// f(g()) with multi-value g
	if len(argExprs) == 1 && np > 1 {
		vs := x.evalMulti(st, fr, out, argExprs[0])
		for _, v := range vs {
			args = append(args, Arg{v: v})
		}
		return args
	}
	for i, a := range argExprs {
		var pt types.Type
		if sig.Variadic() && i >= np-1 {
			pt = sig.Params().At(np - 1).Type().(*types.Slice).Elem()
		} else if i < np {
			pt = sig.Params().At(i).Type()
		}
		if fl, ok := ast.Unparen(a).(*ast.FuncLit); ok {
			args = append(args, Arg{clo: &Closure{lit: fl, frame: fr, pkg: fr.pkg}, expr: a})
			continue
		}
		if id, ok := ast.Unparen(a).(*ast.Ident); ok {
			if v, ok := info.ObjectOf(id).(*types.Var); ok {
				if c, ok := fr.lookupClosure(v); ok {
					args = append(args, Arg{clo: c, expr: a})
					continue
				}
				if p, ok := fr.lookupRefParam(v); ok {
					args = append(args, Arg{place: p, expr: a})
					continue
				}
			}
		}
		// method value used as a function argument (e.g. p.initPositionsFromTop): represent as closure-less marker
		if se, ok := ast.Unparen(a).(*ast.SelectorExpr); ok {
			if sel, ok := info.Selections[se]; ok && sel.Kind() == types.MethodVal {
				args = append(args, Arg{v: x.ctx.Fresh("methodval", SFunc), expr: a})
				continue
			}
		}
		if pt != nil && isRefParamType(pt) {
			if ue, ok := ast.Unparen(a).(*ast.UnaryExpr); ok && ue.Op == token.AND {
				args = append(args, Arg{place: x.place(st, fr, out, ue.X), expr: a})
				continue
			}
			x.unsupp(a.Pos(), "pointer argument %s is not of the form &lvalue", x.src(a))
		}
		if ue, ok := ast.Unparen(a).(*ast.UnaryExpr); ok && ue.Op == token.AND {
			if _, isLit := ast.Unparen(ue.X).(*ast.CompositeLit); !isLit {
				// &x of an addressable struct: by reference
				args = append(args, Arg{place: x.place(st, fr, out, ue.X), expr: a})
				continue
			}
		}
		v := x.eval(st, fr, out, a)
		if pt != nil {
			v = x.coerce(v, pt)
		}
		args = append(args, Arg{v: v, expr: a})
	}
	if sig.Variadic() {
		// pack the variadic tail into a slice unless called with ...
		fixed := np - 1
		if len(args) >= fixed {
			tail := args[fixed:]
			args = args[:fixed:fixed]
			if len(tail) == 1 && tail[0].expr != nil && isEllipsisArg(argExprs, fr) {
				args = append(args, tail[0])
			} else {
				et := sig.Params().At(np - 1).Type().(*types.Slice).Elem()
				es := x.tm.SortOf(et)
				a := x.allocArr(st)
				key := x.tm.ElemsKey(et)
				h := x.get(st, key, elemsSort(es))
				inner := Sel(h, a)
				for i, t := range tail {
					inner = Sto(inner, IntLit(int64(i)), x.coerce(t.v, et))
				}
				x.setElems(st, key, es, h, Sto(h, a, inner), touchedArr(a))
				n := IntLit(int64(len(tail)))
				args = append(args, Arg{v: MkSlice(a, IntLit(0), n, n)})
			}
		}
	}
	return args
}

var ellipsisCalls = map[ast.Expr]bool{}

func isEllipsisArg(argExprs []ast.Expr, fr *Frame) bool {
	// the parent CallExpr is not available here; detect through a registry filled by callers
	if len(argExprs) == 0 {
		return false
	}
	return ellipsisCalls[argExprs[len(argExprs)-1]]
}

// ---------------------------------------------------------------------------

func (x *Xlat) conversion(st *State, fr *Frame, out *Outcomes, ce *ast.CallExpr, to types.Type) *Term {
	info := fr.info()
	v := x.eval(st, fr, out, ce.Args[0])
	from := info.TypeOf(ce.Args[0])
	switch {
	case isFloat(to) && v.Sort == SInt:
		return ToReal(v)
	case isInteger(to) && v.Sort == SReal:
		// truncation toward zero
		return Ite(App(">=", SBool, v, RealLit(0)), App("to_int", SInt, v), App("-", SInt, App("to_int", SInt, App("-", SReal, v))))
	case isInteger(to) && isInteger(from):
		return v // A2: no wrap-around
	case isString(to) && isInteger(from):
		x.ctx.DeclareFunc(&FuncDecl{Name: "str_ofrune", Params: []Sort{SInt}, Ret: SStr})
		return App("str_ofrune", SStr, v)
	}
	return x.coerce(v, to)
}

func (x *Xlat) builtin(st *State, fr *Frame, out *Outcomes, ce *ast.CallExpr, name string) []*Term {
	info := fr.info()
	switch name {
	case "len", "cap":
		a := ce.Args[0]
		switch t := types.Unalias(info.TypeOf(a)).Underlying().(type) {
		case *types.Slice:
			s := x.eval(st, fr, out, a)
			if name == "len" {
				return []*Term{SLen(s)}
			}
			return []*Term{SCap(s)}
		case *types.Map:
			m := x.eval(st, fr, out, a)
			hl := x.get(st, mapLenKey, ArrSort(SRef, SInt))
			return []*Term{Ite(Eq(m, TNull), IntLit(0), Sel(hl, m))}
		case *types.Array:
			return []*Term{IntLit(t.Len())}
		case *types.Basic:
			s := x.eval(st, fr, out, a)
			x.ctx.DeclareFunc(&FuncDecl{Name: "str_len", Params: []Sort{SStr}, Ret: SInt})
			return []*Term{App("str_len", SInt, s)}
		}
		x.unsupp(ce.Pos(), "%s of %s", name, info.TypeOf(a))
	case "min", "max":
		t := info.TypeOf(ce)
		acc := x.coerce(x.eval(st, fr, out, ce.Args[0]), t)
		for _, a := range ce.Args[1:] {
			v := x.coerce(x.eval(st, fr, out, a), t)
			if name == "min" {
				acc = Ite(App("<=", SBool, acc, v), acc, v)
			} else {
				acc = Ite(App(">=", SBool, acc, v), acc, v)
			}
			if acc.Size() > 12 {
				acc = x.ctx.Define(name, acc)
			}
		}
		return []*Term{acc}
	case "append":
		s := x.eval(st, fr, out, ce.Args[0])
		stt := types.Unalias(info.TypeOf(ce)).Underlying().(*types.Slice)
		if ce.Ellipsis.IsValid() {
			o := x.eval(st, fr, out, ce.Args[1])
			return []*Term{x.appendSlice(st, s, o, stt.Elem())}
		}
		for _, a := range ce.Args[1:] {
			v := x.coerce(x.evalElt(st, fr, out, a, stt.Elem()), stt.Elem())
			s = x.appendOne(st, s, v, stt.Elem())
		}
		return []*Term{s}
	case "make":
		t := info.TypeOf(ce)
		switch u := types.Unalias(t).Underlying().(type) {
		case *types.Slice:
			n := x.eval(st, fr, out, ce.Args[1])
			var c *Term = n
			if len(ce.Args) > 2 {
				c = x.eval(st, fr, out, ce.Args[2])
			}
			x.safety(st, out, "make", And(App(">=", SBool, n, IntLit(0)), App("<=", SBool, n, c)), ce.Pos(), "makeslice: len out of range: "+x.src(ce))
			a := x.allocArr(st)
			es := x.tm.SortOf(u.Elem())
			key := x.tm.ElemsKey(u.Elem())
			h := x.get(st, key, elemsSort(es))
			zero := App("(as const "+ArrSort(SInt, es)+")", ArrSort(SInt, es), x.tm.Zero(u.Elem()))
			h2 := x.setElems(st, key, es, h, Sto(h, a, zero), touchedArr(a))
			res := MkSlice(a, IntLit(0), n, c)
			ib := Const("i!", SInt)
			lhs := x.atTerm(h2, res, ib, es)
			st.assume(Forall([]Bind{{"i!", SInt}}, Eq(lhs, x.tm.Zero(u.Elem())), []*Term{lhs}))
			return []*Term{res}
		case *types.Map:
			m := x.allocRef(st, "map", t)
			x.initMap(st, m, u)
			return []*Term{m}
		}
		x.unsupp(ce.Pos(), "make of %s", t)
	case "new":
		t := info.TypeOf(ce.Args[0])
		r := x.allocRef(st, "new", types.NewPointer(t))
		if _, ok := types.Unalias(t).Underlying().(*types.Struct); ok {
			x.store(st, out, PHeap{r, t, nil, t}, x.tm.Zero(t), ce.Pos())
		} else {
			x.store(st, out, PHeap{r, t, []string{"val"}, t}, x.tm.Zero(t), ce.Pos())
		}
		return []*Term{r}
	case "copy":
		dst := x.eval(st, fr, out, ce.Args[0])
		src := x.eval(st, fr, out, ce.Args[1])
		et := types.Unalias(info.TypeOf(ce.Args[0])).Underlying().(*types.Slice).Elem()
		n := Ite(App("<=", SBool, SLen(dst), SLen(src)), SLen(dst), SLen(src))
		n = x.ctx.Define("copyn", n)
		x.copyElems(st, dst, src, n, et)
		return []*Term{n}
	case "delete":
		mt := types.Unalias(info.TypeOf(ce.Args[0])).Underlying().(*types.Map)
		m := x.eval(st, fr, out, ce.Args[0])
		k := x.coerce(x.eval(st, fr, out, ce.Args[1]), mt.Key())
		ks := x.tm.SortOf(mt.Key())
		dk := mapDomKey(ks, x.tm.SortOf(mt.Elem()))
		hd := x.get(st, dk, ArrSort(SRef, ArrSort(ks, SBool)))
		was := Sel(Sel(hd, m), k)
		hl := x.get(st, mapLenKey, ArrSort(SRef, SInt))
		x.set(st, mapLenKey, Sto(hl, m, Ite(was, App("-", SInt, Sel(hl, m), IntLit(1)), Sel(hl, m))))
		x.set(st, dk, Sto(hd, m, Sto(Sel(hd, m), k, TFalse)))
		return nil
	case "clear":
		switch u := types.Unalias(info.TypeOf(ce.Args[0])).Underlying().(type) {
		case *types.Map:
			m := x.eval(st, fr, out, ce.Args[0])
			// clear(nil map) is a no-op
			st2 := st.clone()
			x.initMap(st2, m, u)
			st2.guard(Not(Eq(m, TNull)))
			st.guard(Eq(m, TNull))
			mm := x.merge(st2, st)
			*st = *mm
			return nil
		case *types.Slice:
			// clear(s): every element of s becomes the zero value, nothing outside the window changes
			sl := x.ctx.Define("clr", x.eval(st, fr, out, ce.Args[0]))
			et := u.Elem()
			es := x.tm.SortOf(et)
			key := x.tm.ElemsKey(et)
			h := x.get(st, key, elemsSort(es))
			res := x.ctx.Fresh("arrv", ArrSort(SInt, es))
			i := Const("i!", SInt)
			oldA := Sel(h, SArr(sl))
			inr := And(App("<=", SBool, IntLit(0), i), App("<", SBool, i, SLen(sl)))
			st.assume(Forall([]Bind{{"i!", SInt}}, Imp(inr, Eq(Sel(res, App("+", SInt, SOff(sl), i)), x.tm.Zero(et)))))
			st.assume(Forall([]Bind{{"i!", SInt}}, Imp(Or(App("<", SBool, i, SOff(sl)), App(">=", SBool, i, App("+", SInt, SOff(sl), SLen(sl)))),
				Eq(Sel(res, i), Sel(oldA, i)))))
			h2 := x.setElems(st, key, es, h, Sto(h, SArr(sl), res), touchedWindow(sl, SLen(sl)))
			lhs := x.atTerm(h2, sl, i, es)
			st.assume(Forall([]Bind{{"i!", SInt}}, Imp(inr, Eq(lhs, x.tm.Zero(et))), []*Term{lhs}))
			x.models["clear(slice): every element becomes the zero value (A5)"] = true
			return nil
		}
		x.unsupp(ce.Pos(), "clear of non-map/non-slice")
	case "panic":
		x.safety(st, out, "panic", TFalse, ce.Pos(), "explicit panic reachable")
		return nil
	case "print", "println":
		return nil
	case "recover":
		// non-nil exactly when the function is panicking (we are in a deferred call on the panic exit); stops the panic
		r := x.ctx.Fresh("recovered", SIface)
		pk, ok := st.env["$panicking"]
		if !ok {
			pk = TFalse
		}
		st.assume(Eq(Not(Eq(r, x.ctx.Named("iface$nil", SIface))), pk))
		st.env["$panicking"] = TFalse
		return []*Term{r}
	}
	x.unsupp(ce.Pos(), "builtin %s", name)
	return nil
}

// appendOne models append(s, v): in place when len < cap, otherwise a fresh array with some capacity >= len+1.
func (x *Xlat) appendOne(st *State, s *Term, v *Term, et types.Type) *Term {
	es := x.tm.SortOf(et)
	key := x.tm.ElemsKey(et)
	if s.Op != "mk_Slice" {
		s = x.ctx.Define("aps", s)
	}
	h := x.get(st, key, elemsSort(es))
	inPlace := App("<", SBool, SLen(s), SCap(s))
	// fresh array
	a := x.ctx.Fresh("arr", SInt)
	al := x.get(st, arrAllocKey, ArrSort(SInt, SBool))
	st.assume(Not(Sel(al, a)))
	st.assume(Not(Eq(a, IntLit(0))))
	newcap := x.ctx.Fresh("cap", SInt)
	st.assume(App(">=", SBool, newcap, App("+", SInt, SLen(s), IntLit(1))))
	// contents of the fresh array: copy of the live prefix
	fresh := x.ctx.Fresh("arrv", ArrSort(SInt, es))
	i := Const("i!", SInt)
	st.assume(Forall([]Bind{{"i!", SInt}}, Imp(And(App("<=", SBool, IntLit(0), i), App("<", SBool, i, SLen(s))),
		Eq(Sel(fresh, i), Sel(Sel(h, SArr(s)), App("+", SInt, SOff(s), i))))))
	// a freshly allocated array is zeroed beyond what is copied into it
	st.assume(Forall([]Bind{{"i!", SInt}}, Imp(Or(App("<", SBool, i, IntLit(0)), App(">=", SBool, i, SLen(s))), Eq(Sel(fresh, i), x.tm.Zero(et)))))
	if len(v.Args) > 0 {
		v = x.ctx.Define("apv", v)
	}
	hInPlace := Sto(h, SArr(s), Sto(Sel(h, SArr(s)), App("+", SInt, SOff(s), SLen(s)), v))
	hFresh := Sto(h, a, Sto(fresh, SLen(s), v))
	h2 := x.ctx.Define(key, Ite(inPlace, hInPlace, hFresh))
	st.env[key] = h2
	x.set(st, arrAllocKey, Ite(inPlace, al, Sto(al, a, TTrue)))
	res := x.ctx.Define("app", Ite(inPlace,
		MkSlice(SArr(s), SOff(s), App("+", SInt, SLen(s), IntLit(1)), SCap(s)),
		MkSlice(a, IntLit(0), App("+", SInt, SLen(s), IntLit(1)), newcap)))
	// derived facts over at(), implied by the array-level definition above; they let E-matching carry element facts across the append
	lhs := x.atTerm(h2, res, i, es)
	st.assume(Forall([]Bind{{"i!", SInt}}, Imp(And(App("<=", SBool, IntLit(0), i), App("<", SBool, i, SLen(s))), Eq(lhs, x.atTerm(h, s, i, es))), []*Term{lhs}))
	st.assume(Eq(x.atTerm(h2, res, SLen(s), es), v))
	tb, jb := Const("t!", SSlice), Const("j!", SInt)
	lhs2 := x.atTerm(h2, tb, jb, es)
	touched := Or(And(inPlace, Eq(SArr(tb), SArr(s)), Eq(App("+", SInt, SOff(tb), jb), App("+", SInt, SOff(s), SLen(s)))),
		And(Not(inPlace), Eq(SArr(tb), a)))
	st.assume(Forall([]Bind{{"t!", SSlice}, {"j!", SInt}}, Imp(Not(touched), Eq(lhs2, x.atTerm(h, tb, jb, es))), []*Term{lhs2}))
	// the cell written in place holds v, through whichever slice over the same array it is read
	inCell := And(inPlace, Eq(SArr(tb), SArr(s)), Eq(App("+", SInt, SOff(tb), jb), App("+", SInt, SOff(s), SLen(s))))
	st.assume(Forall([]Bind{{"t!", SSlice}, {"j!", SInt}}, Imp(inCell, Eq(lhs2, v)), []*Term{lhs2}))
	return res
}

// appendSlice models append(s, o...).
func (x *Xlat) appendSlice(st *State, s, o *Term, et types.Type) *Term {
	es := x.tm.SortOf(et)
	key := x.tm.ElemsKey(et)
	s = x.ctx.Define("aps", s)
	o = x.ctx.Define("apo", o)
	h := x.get(st, key, elemsSort(es))
	total := x.ctx.Define("aplen", App("+", SInt, SLen(s), SLen(o)))
	inPlace := App("<=", SBool, total, SCap(s))
	a := x.ctx.Fresh("arr", SInt)
	al := x.get(st, arrAllocKey, ArrSort(SInt, SBool))
	st.assume(Not(Sel(al, a)))
	st.assume(Not(Eq(a, IntLit(0))))
	newcap := x.ctx.Fresh("cap", SInt)
	st.assume(App(">=", SBool, newcap, total))
	// resulting inner array (either the old array updated, or a fresh one)
	resArr := x.ctx.Fresh("arrv", ArrSort(SInt, es))
	i := Const("i!", SInt)
	baseOff := Ite(inPlace, SOff(s), IntLit(0))
	oldInner := Sel(h, SArr(s))
	srcInner := Sel(h, SArr(o))
	// elements of o land after the prefix; memmove semantics: read from the pre-state
	st.assume(Forall([]Bind{{"i!", SInt}}, Imp(And(App("<=", SBool, IntLit(0), i), App("<", SBool, i, SLen(o))),
		Eq(Sel(resArr, App("+", SInt, baseOff, App("+", SInt, SLen(s), i))), Sel(srcInner, App("+", SInt, SOff(o), i))))))
	// prefix preserved
	st.assume(Forall([]Bind{{"i!", SInt}}, Imp(And(App("<=", SBool, IntLit(0), i), App("<", SBool, i, SLen(s))),
		Eq(Sel(resArr, App("+", SInt, baseOff, i)), Sel(oldInner, App("+", SInt, SOff(s), i))))))
	// fresh array: zero outside the copied range
	st.assume(Imp(Not(inPlace), Forall([]Bind{{"i!", SInt}}, Imp(Or(App("<", SBool, i, IntLit(0)), App(">=", SBool, i, total)), Eq(Sel(resArr, i), x.tm.Zero(et))))))
	// in place: everything outside the written window is unchanged
	st.assume(Imp(inPlace, Forall([]Bind{{"i!", SInt}}, Imp(Or(App("<", SBool, i, App("+", SInt, SOff(s), SLen(s))), App(">=", SBool, i, App("+", SInt, SOff(s), total))),
		Eq(Sel(resArr, i), Sel(oldInner, i))))))
	x.setElems(st, key, es, h, Ite(inPlace, Sto(h, SArr(s), resArr), Sto(h, a, resArr)), func(t, j *Term) *Term {
		p := App("+", SInt, SOff(t), j)
		return Or(And(inPlace, Eq(SArr(t), SArr(s)), App(">=", SBool, p, App("+", SInt, SOff(s), SLen(s))), App("<", SBool, p, App("+", SInt, SOff(s), total))),
			And(Not(inPlace), Eq(SArr(t), a)))
	})
	x.set(st, arrAllocKey, Ite(inPlace, al, Sto(al, a, TTrue)))
	res := x.ctx.Define("app", Ite(inPlace, MkSlice(SArr(s), SOff(s), total, SCap(s)), MkSlice(a, IntLit(0), total, newcap)))
	// derived facts over at(), implied by the array-level definition above (cf. appendOne)
	h2 := x.get(st, key, elemsSort(es))
	lhs := x.atTerm(h2, res, i, es)
	st.assume(Forall([]Bind{{"i!", SInt}}, Imp(And(App("<=", SBool, IntLit(0), i), App("<", SBool, i, SLen(s))), Eq(lhs, x.atTerm(h, s, i, es))), []*Term{lhs}))
	st.assume(Forall([]Bind{{"i!", SInt}}, Imp(And(App("<=", SBool, SLen(s), i), App("<", SBool, i, total)), Eq(lhs, x.atTerm(h, o, App("-", SInt, i, SLen(s)), es))), []*Term{lhs}))
	src := x.atTerm(h, o, i, es)
	st.assume(Forall([]Bind{{"i!", SInt}}, Imp(And(App("<=", SBool, IntLit(0), i), App("<", SBool, i, SLen(o))), Eq(x.atTerm(h2, res, App("+", SInt, SLen(s), i), es), src)), []*Term{src}))
	return res
}

func (x *Xlat) copyElems(st *State, dst, src, n *Term, et types.Type) {
	es := x.tm.SortOf(et)
	key := x.tm.ElemsKey(et)
	h := x.get(st, key, elemsSort(es))
	resArr := x.ctx.Fresh("arrv", ArrSort(SInt, es))
	i := Const("i!", SInt)
	oldInner := Sel(h, SArr(dst))
	srcInner := Sel(h, SArr(src))
	st.assume(Forall([]Bind{{"i!", SInt}}, Imp(And(App("<=", SBool, IntLit(0), i), App("<", SBool, i, n)),
		Eq(Sel(resArr, App("+", SInt, SOff(dst), i)), Sel(srcInner, App("+", SInt, SOff(src), i))))))
	st.assume(Forall([]Bind{{"i!", SInt}}, Imp(Or(App("<", SBool, i, SOff(dst)), App(">=", SBool, i, App("+", SInt, SOff(dst), n))),
		Eq(Sel(resArr, i), Sel(oldInner, i)))))
	h2 := x.setElems(st, key, es, h, Sto(h, SArr(dst), resArr), touchedWindow(dst, n))
	lhs := x.atTerm(h2, dst, i, es)
	st.assume(Forall([]Bind{{"i!", SInt}}, Imp(And(App("<=", SBool, IntLit(0), i), App("<", SBool, i, n)), Eq(lhs, x.atTerm(h, src, i, es))), []*Term{lhs}, []*Term{x.atTerm(h, src, i, es)}))
}

// ---------------------------------------------------------------------------
// module functions

func (x *Xlat) inCallChain(fr *Frame, fi *FuncInfo) bool {
	for f := fr; f != nil; f = f.caller {
		if f.fi == fi && f.lit == nil {
			return true
		}
	}
	return false
}

func (x *Xlat) hasContract(fi *FuncInfo) bool {
	s := fi.Spec
	if s == nil || s.Inline {
		return false
	}
	// view-aware: a function whose only clauses belong to other properties' views is treated as having no contract
	// in this view (it is inlined like any other helper)
	n := 0
	for _, c := range s.Requires {
		if c.inView(x.view) {
			n++
		}
	}
	for _, c := range s.Ensures {
		if c.inView(x.view) {
			n++
		}
	}
	return n > 0 || s.HasMod || s.Trusted != "" || s.Pure || s.NoPanic
}

// preOnly: in the current view the contract has preconditions and nothing else.
func (x *Xlat) preOnly(fi *FuncInfo) bool {
	s := fi.Spec
	if s == nil || s.HasMod || s.Trusted != "" || s.Pure || s.NoPanic || s.Decr != nil || len(s.Loops) > 0 || len(s.Asserts) > 0 {
		return false
	}
	nr := 0
	for _, c := range s.Requires {
		if c.inView(x.view) {
			nr++
		}
	}
	for _, c := range s.Ensures {
		if c.inView(x.view) {
			return false
		}
	}
	return nr > 0
}

func (x *Xlat) nnArgs(st *State, out *Outcomes, fi *FuncInfo, args []Arg, pos token.Pos) {
	if !x.nn {
		return
	}
	ps := x.paramVars(fi)
	for i, p := range ps {
		if i < len(args) && args[i].v != nil && args[i].v.Sort == SRef && p != nil && (isPtrToStruct(p.Type()) || isMapType(p.Type())) {
			x.safety(st, out, "nilarg", Not(Eq(args[i].v, TNull)), pos, fmt.Sprintf("nil passed for parameter %s of %s", p.Name(), fi.Key))
		}
	}
}

func (x *Xlat) callModule(st *State, fr *Frame, out *Outcomes, fi *FuncInfo, args []Arg, pos token.Pos) []*Term {
	if x.hasContract(fi) {
		x.nnArgs(st, out, fi, args, pos)
		if x.preOnly(fi) && !x.inCallChain(fr, fi) && fr.depth < maxInlineDepth && x.lock == nil {
			// a contract that (in this view) consists of preconditions only: they are asserted at the call, and the body is
			// then inlined like that of any helper without a contract - more precise than havocking what it writes
			snap := st.clone()
			nobl := len(x.obls)
			savedPan := out.pan
			x.stopAfterPre = true
			x.callContract(st, fr, out, fi, args, pos)
			x.stopAfterPre = false
			if rs, ok := x.tryInline(st, fr, out, fi, args, pos); ok {
				x.inlined[fi.Key] = true
				return rs
			}
			*st = *snap
			x.obls = x.obls[:nobl]
			out.pan = savedPan
		}
		return x.callContract(st, fr, out, fi, args, pos)
	}
	if !x.inCallChain(fr, fi) && fr.depth < maxInlineDepth {
		snap := st.clone()
		nobl := len(x.obls)
		savedPan := out.pan
		rs, ok := x.tryInline(st, fr, out, fi, args, pos)
		if ok {
			x.inlined[fi.Key] = true
			return rs
		}
		*st = *snap
		x.obls = x.obls[:nobl]
		out.pan = savedPan
	}
	x.nnArgs(st, out, fi, args, pos)
	return x.callHavoc(st, fr, out, fi, args, pos)
}

func (x *Xlat) tryInline(st *State, fr *Frame, out *Outcomes, fi *FuncInfo, args []Arg, pos token.Pos) (rs []*Term, ok bool) {
	defer func() {
		if r := recover(); r != nil {
			if u, isU := r.(unsupported); isU {
				x.note("callee %s not inlined (%s): approximated by havoc of its write effects", fi.Key, u.msg)
				ok = false
				return
			}
			panic(r)
		}
	}()
	return x.inlineFunc(st, fr, out, fi, args, pos), true
}

func (x *Xlat) paramVars(fi *FuncInfo) []*types.Var {
	sig := fi.Obj.Type().(*types.Signature)
	var ps []*types.Var
	if r := sig.Recv(); r != nil {
		// the receiver object used in the body is the Defs of the ident in the decl
		if fi.Decl.Recv != nil && len(fi.Decl.Recv.List) > 0 && len(fi.Decl.Recv.List[0].Names) > 0 {
			if v, ok := fi.Pkg.TypesInfo.Defs[fi.Decl.Recv.List[0].Names[0]].(*types.Var); ok {
				ps = append(ps, v)
			} else {
				ps = append(ps, r)
			}
		} else {
			ps = append(ps, r)
		}
	}
	for _, f := range fi.Decl.Type.Params.List {
		if len(f.Names) == 0 {
			ps = append(ps, types.NewVar(token.NoPos, fi.Obj.Pkg(), "_", fi.Pkg.TypesInfo.TypeOf(f.Type)))
			continue
		}
		for _, n := range f.Names {
			if v, ok := fi.Pkg.TypesInfo.Defs[n].(*types.Var); ok {
				ps = append(ps, v)
			} else {
				ps = append(ps, types.NewVar(token.NoPos, fi.Obj.Pkg(), "_", fi.Pkg.TypesInfo.TypeOf(f.Type)))
			}
		}
	}
	return ps
}

func (x *Xlat) resultVars(pkgInfo *types.Info, ft *ast.FuncType) ([]*types.Var, []types.Type) {
	var vs []*types.Var
	var ts []types.Type
	if ft.Results == nil {
		return nil, nil
	}
	for _, f := range ft.Results.List {
		t := pkgInfo.TypeOf(f.Type)
		if len(f.Names) == 0 {
			vs = append(vs, nil)
			ts = append(ts, t)
			continue
		}
		for _, n := range f.Names {
			v, _ := pkgInfo.Defs[n].(*types.Var)
			vs = append(vs, v)
			ts = append(ts, t)
		}
	}
	return vs, ts
}

func (x *Xlat) bindParams(st *State, fr2 *Frame, ps []*types.Var, args []Arg, pos token.Pos) {
	if len(args) < len(ps) {
		x.unsupp(pos, "argument count mismatch: %d args for %d params", len(args), len(ps))
	}
	for i, p := range ps {
		a := args[i]
		switch {
		case a.clo != nil:
			fr2.closures[p] = a.clo
		case a.place != nil:
			fr2.refParams[p] = a.place
		default:
			if p.Name() == "_" {
				continue
			}
			x.declVar(st, fr2, p, x.coerce(a.v, p.Type()))
		}
	}
}

func (x *Xlat) inlineFunc(st *State, fr *Frame, out *Outcomes, fi *FuncInfo, args []Arg, pos token.Pos) []*Term {
	fr2 := x.newFrame(fi, nil, nil, fr)
	x.bindParams(st, fr2, x.paramVars(fi), args, pos)
	return x.runInlined(st, fr2, out, fi.Pkg.TypesInfo, fi.Decl.Type, fi.Decl.Body, pos)
}

func (x *Xlat) inlineClosure(st *State, fr *Frame, out *Outcomes, c *Closure, args []Arg, pos token.Pos) []*Term {
	// recursion through closures is not inlined
	for f := fr; f != nil; f = f.caller {
		if f.lit == c.lit {
			x.unsupp(pos, "recursive closure call")
		}
	}
	if fr.depth >= maxInlineDepth {
		x.unsupp(pos, "closure inlining too deep")
	}
	fr2 := x.newFrame(nil, c.lit, c.frame, fr)
	fr2.pkg = c.pkg
	fr2.fi = c.frame.fi
	info := c.pkg.TypesInfo
	var ps []*types.Var
	for _, f := range c.lit.Type.Params.List {
		if len(f.Names) == 0 {
			ps = append(ps, types.NewVar(token.NoPos, nil, "_", info.TypeOf(f.Type)))
		}
		for _, n := range f.Names {
			if v, ok := info.Defs[n].(*types.Var); ok {
				ps = append(ps, v)
			} else {
				ps = append(ps, types.NewVar(token.NoPos, nil, "_", info.TypeOf(f.Type)))
			}
		}
	}
	x.bindParams(st, fr2, ps, args, pos)
	return x.runInlined(st, fr2, out, info, c.lit.Type, c.lit.Body, pos)
}

func (x *Xlat) runInlined(st *State, fr2 *Frame, out *Outcomes, info *types.Info, ft *ast.FuncType, body *ast.BlockStmt, pos token.Pos) []*Term {
	rvs, rts := x.resultVars(info, ft)
	for i, rv := range rvs {
		key := fmt.Sprintf("r$%d$%d", fr2.id, i)
		if rv != nil {
			key = x.declVar(st, fr2, rv, x.tm.Zero(rts[i]))
		}
		fr2.results = append(fr2.results, key)
		fr2.resultTys = append(fr2.resultTys, rts[i])
	}
	o := x.execBlock(st, fr2, body.List)
	if len(fr2.defers) > 0 {
		x.unsupp(pos, "defer in inlined function")
	}
	if len(o.brk) > 0 || len(o.cont) > 0 || len(o.gotos) > 0 {
		x.unsupp(pos, "stray branch out of inlined function")
	}
	out.pan = x.merge(out.pan, o.pan)
	fin := x.merge(o.normal, o.ret)
	if fin == nil {
		st.guard(TFalse)
		var rs []*Term
		for _, t := range rts {
			rs = append(rs, x.tm.Zero(t))
		}
		return rs
	}
	*st = *fin
	var rs []*Term
	for i, k := range fr2.results {
		rs = append(rs, x.get(st, k, x.tm.SortOf(rts[i])))
	}
	// drop callee locals
	prefix := fmt.Sprintf("v$%d$", fr2.id)
	prefix2 := fmt.Sprintf("r$%d$", fr2.id)
	for k := range st.env {
		if strings.HasPrefix(k, prefix) || strings.HasPrefix(k, prefix2) {
			delete(st.env, k)
		}
	}
	return rs
}

// callHavoc approximates a call by havocking everything the callee may write.
func (x *Xlat) callHavoc(st *State, fr *Frame, out *Outcomes, fi *FuncInfo, args []Arg, pos token.Pos) []*Term {
	x.havoced[fi.Key] = true
	if x.lock != nil {
		x.lockCall(st, fi, args, pos)
		if x.lock.funcs[fi.Key] {
			x.lockHavocOK = true
			defer func() { x.lockHavocOK = false }()
		}
	}
	ef := x.eff.Of(fi)
	for _, k := range sortedKeys(ef.regions) {
		x.havocRegion(st, k)
	}
	ps := x.paramVars(fi)
	for i := range ps {
		if i < len(args) && args[i].place != nil && (ef.refWrites[i] || !isRefParamType(ps[i].Type())) {
			x.havocPlace(st, out, args[i].place, pos)
		}
		if i < len(args) && args[i].clo != nil {
			x.havocClosureEffects(st, args[i].clo)
		}
	}
	if x.trackPanic {
		out.pan = x.merge(out.pan, st.clone())
	}
	var rs []*Term
	sig := fi.Obj.Type().(*types.Signature)
	for i := 0; i < sig.Results().Len(); i++ {
		rs = append(rs, x.freshTyped(st, "ret$"+fi.Obj.Name(), sig.Results().At(i).Type()))
		if x.lock != nil && x.lock.funcs[fi.Key] {
			x.lockCouple(rs[i])
		}
	}
	return rs
}

func (x *Xlat) havocClosureEffects(st *State, c *Closure) {
	ef := x.eff.OfLit(c.pkg, c.lit)
	for _, k := range sortedKeys(ef.regions) {
		x.havocRegion(st, k)
	}
	for _, v := range sortedVars(ef.assigned) {
		if k, _, ok := c.frame.lookupVar(v); ok {
			if cur, ok := st.env[k]; ok {
				st.env[k] = x.freshTyped(st, k, v.Type())
				_ = cur
			}
		}
	}
}

func (x *Xlat) havocPlace(st *State, out *Outcomes, p Place, pos token.Pos) {
	var t types.Type
	switch p := p.(type) {
	case PVar:
		t = p.typ
	case PHeap:
		t = p.typ
	case PElem:
		t = p.typ
	case PMapElem:
		t = p.vt
	case PField:
		t = p.f.Type()
	case PArrIdx:
		t = types.Unalias(p.atyp).Underlying().(*types.Array).Elem()
	default:
		return
	}
	x.store(st, out, p, x.freshTyped(st, "hv", t), pos)
}

// callContract: assert requires, havoc modifies, assume ensures.
func (x *Xlat) callContract(st *State, fr *Frame, out *Outcomes, fi *FuncInfo, args []Arg, pos token.Pos) []*Term {
	x.used[fi.Key] = true
	spec := fi.Spec
	ps := x.paramVars(fi)
	if x.lock != nil {
		x.lockCall(st, fi, args, pos)
		if x.lock.funcs[fi.Key] {
			x.lockHavocOK = true
			defer func() { x.lockHavocOK = false }()
		}
	}
	sig := fi.Obj.Type().(*types.Signature)
	env := x.newSpecEnv(st, nil, fi.Pkg.Types)
	for i, p := range ps {
		if i >= len(args) {
			break
		}
		a := args[i]
		switch {
		case a.place != nil:
			env.vars[p.Name()] = SpecVal{place: a.place, typ: p.Type()}
		case a.clo != nil:
		default:
			env.vars[p.Name()] = SpecVal{t: x.coerce(a.v, p.Type()), typ: p.Type()}
		}
	}
	// implicit: pointer receiver non-nil
	if sig.Recv() != nil && len(args) > 0 && args[0].v != nil && args[0].v.Sort == SRef {
		if _, isPtr := types.Unalias(sig.Recv().Type()).Underlying().(*types.Pointer); isPtr {
			x.safety(st, out, "nil", Not(Eq(args[0].v, TNull)), pos, "nil receiver in call to "+fi.Key)
		}
	}
	// ghost parameters: existentially chosen by the caller; here fresh constants constrained by nothing
	for _, g := range spec.Ghosts {
		gt, err := x.prog.LookupType(g.Type, fi.Pkg.Types)
		if err != nil {
			x.unsupp(pos, "%v", err)
		}
		if k, ok := fr.lookupGhost(g.Name); ok && st.env[k] != nil {
			env.vars[g.Name] = SpecVal{t: st.env[k], typ: gt}
		} else {
			env.vars[g.Name] = SpecVal{t: x.ctx.Fresh("ghost$"+g.Name, x.specSort(gt)), typ: gt}
		}
	}
	for i, r := range spec.Requires {
		if !r.inView(x.view) {
			continue
		}
		g := env.evalBool(r.Expr)
		name := fmt.Sprintf("%s/call.pre.%s.%d#%d", x.curFunc, fi.Key, i+1, x.bump("call."+fi.Key+fmt.Sprint(i)))
		x.emit(st, name, "call.pre", g, pos, "precondition of "+fi.Key+": "+r.Text)
		st.assume(g)
	}
	if x.stopAfterPre {
		return nil
	}
	// recursion: the callee's measure must be smaller than ours and bounded below
	if fi == x.fi && spec.Decr != nil && x.entryMeasure != nil {
		m := env.eval(spec.Decr.Expr).t
		name := fmt.Sprintf("%s/decreases.call#%d", x.curFunc, x.bump("decr.call"))
		x.emit(st, name, "decreases", And(App(">=", SBool, m, zeroOf(m.Sort)), App("<", SBool, m, x.entryMeasure)), pos, "recursive call decreases the measure and keeps it bounded below: "+spec.Decr.Text)
	} else if fi == x.fi && x.fi.Spec != nil {
		x.note("recursive call of %s without a decreases clause: partial correctness only", fi.Key)
	}
	pre := st.clone()
	// havoc
	var regions []string
	if spec.HasMod {
		regions = x.expandModifies(spec.Modifies, fi)
	} else {
		regions = sortedKeys(x.eff.Of(fi).regions)
	}
	gwBefore := map[string]*Term{}
	for _, k := range regions {
		x.havocRegion(st, k)
		if strings.HasPrefix(k, "G$") {
			// ghost written-flag: callee-relative while its postconditions are assumed
			wk := "GW$" + k[2:]
			if v, ok := st.env[wk]; ok {
				gwBefore[wk] = v
			} else {
				gwBefore[wk] = TFalse
			}
			st.env[wk] = x.ctx.Fresh(wk, SBool)
		}
	}
	defer func() {
		for _, wk := range sortedKeys(gwBefore) {
			before := gwBefore[wk]
			st.env[wk] = Or(before, st.env[wk])
		}
	}()
	ef := x.eff.Of(fi)
	for i := range ps {
		if i < len(args) && args[i].place != nil && (ef.refWrites[i] || spec.Trusted != "") {
			x.havocPlace(st, out, args[i].place, pos)
		}
	}
	var rs []*Term
	for i := 0; i < sig.Results().Len(); i++ {
		rs = append(rs, x.freshTyped(st, "ret$"+fi.Obj.Name(), sig.Results().At(i).Type()))
		if x.lock != nil && x.lock.funcs[fi.Key] {
			x.lockCouple(rs[i])
		}
	}
	if x.trackPanic && !spec.NoPanic {
		out.pan = x.merge(out.pan, st.clone())
	}
	env2 := x.newSpecEnv(st, pre, fi.Pkg.Types)
	env2.vars = env.vars
	env2.setResults(fi, rs)
	for _, e := range spec.Ensures {
		if !e.inView(x.view) {
			continue
		}
		st.assume(env2.evalBool(e.Expr))
	}
	return rs
}

func (x *Xlat) bump(k string) int {
	x.counts[k]++
	return x.counts[k]
}

// expandModifies turns "Node.X, Layer.*, Elems[*Node], map[*Node]int, alloc" into region keys.
func (x *Xlat) expandModifies(ms []string, fi *FuncInfo) []string {
	var out []string
	for _, m := range ms {
		ks, err := x.eff.ParseRegion(m, fi.Pkg.Types)
		if err != nil {
			x.unsupp(fi.Decl.Pos(), "modifies clause %q: %v", m, err)
		}
		out = append(out, ks...)
	}
	return out
}

// ---------------------------------------------------------------------------

func (x *Xlat) callUnknownFuncValue(st *State, fr *Frame, out *Outcomes, ce *ast.CallExpr, what string) []*Term {
	info := fr.info()
	sig, _ := types.Unalias(info.TypeOf(ce.Fun)).Underlying().(*types.Signature)
	if sig == nil {
		x.unsupp(ce.Pos(), "call of %s", what)
	}
	// evaluate arguments for their safety conditions
	for _, a := range ce.Args {
		if _, ok := a.(*ast.FuncLit); ok {
			continue
		}
		if ue, ok := ast.Unparen(a).(*ast.UnaryExpr); ok && ue.Op == token.AND {
			if _, isLit := ast.Unparen(ue.X).(*ast.CompositeLit); !isLit {
				x.havocPlace(st, out, x.place(st, fr, out, ue.X), a.Pos())
				continue
			}
		}
		x.eval(st, fr, out, a)
	}
	// effects: a function value of unknown origin may be any closure of the module with that signature.
	keys := x.eff.UnknownFuncEffects(sig)
	dispatch := x.lock != nil && x.lock.funcs["*dispatch"]
	if dispatch {
		// lockstep composition: the callee (a size option, a phase reached through an interface) is scale equivariant by
		// assumption - proved per function for the phases in the lockstep set, an input assumption for user callbacks:
		// the state must be coupled before the call and is coupled after it
		x.lockState(st, x.lockAllKeys(st), "call", ce.Pos())
		x.lockHavocOK = true
	}
	for _, k := range keys {
		x.havocRegion(st, k)
	}
	if dispatch {
		x.lockHavocOK = false
	}
	x.havoced["funcvalue:"+what] = true
	if x.trackPanic {
		out.pan = x.merge(out.pan, st.clone())
	}
	var rs []*Term
	for i := 0; i < sig.Results().Len(); i++ {
		rs = append(rs, x.freshTyped(st, "ret$fv", sig.Results().At(i).Type()))
	}
	return rs
}

func (x *Xlat) callInterface(st *State, fr *Frame, out *Outcomes, ce *ast.CallExpr, recv ast.Expr, m *types.Func) []*Term {
	info := fr.info()
	sig := m.Type().(*types.Signature)
	rv := x.eval(st, fr, out, recv)
	for _, a := range ce.Args {
		x.eval(st, fr, out, a)
	}
	// Monitor.Log: external, no effect on autog's heap (A6)
	it := info.TypeOf(recv)
	if n, ok := types.Unalias(it).(*types.Named); ok && n.Obj().Name() == "Monitor" {
		x.safety(st, out, "nil", Not(Eq(rv, x.ctx.Named("iface$nil", SIface))), ce.Pos(), "nil interface method call")
		x.models["Monitor.Log is external and does not touch autog state (A6)"] = true
		return nil
	}
	// other interfaces: union of effects of all implementations in the module
	keys := x.eff.InterfaceMethodEffects(m)
	dispatch := x.lock != nil && x.lock.funcs["*dispatch"]
	if dispatch {
		x.lockState(st, x.lockAllKeys(st), "call", ce.Pos())
		x.lockHavocOK = true
	}
	for _, k := range keys {
		x.havocRegion(st, k)
	}
	if dispatch {
		x.lockHavocOK = false
	}
	x.havoced["iface:"+m.Name()] = true
	if x.trackPanic {
		out.pan = x.merge(out.pan, st.clone())
	}
	var rs []*Term
	for i := 0; i < sig.Results().Len(); i++ {
		rs = append(rs, x.freshTyped(st, "ret$im", sig.Results().At(i).Type()))
	}
	return rs
}

// callIsPure: conservative syntactic purity check used for short-circuit evaluation.
func (x *Xlat) callIsPure(fr *Frame, ce *ast.CallExpr) bool {
	info := fr.info()
	if tv, ok := info.Types[ce.Fun]; ok && tv.IsType() {
		return true
	}
	fun := ast.Unparen(ce.Fun)
	if id, ok := fun.(*ast.Ident); ok {
		if b, ok := info.Uses[id].(*types.Builtin); ok {
			switch b.Name() {
			case "len", "cap", "min", "max":
				return true
			}
			return false
		}
	}
	var callee *types.Func
	switch f := fun.(type) {
	case *ast.Ident:
		callee, _ = info.Uses[f].(*types.Func)
	case *ast.SelectorExpr:
		if sel, ok := info.Selections[f]; ok {
			if sel.Kind() == types.MethodVal {
				callee, _ = sel.Obj().(*types.Func)
			}
		} else {
			callee, _ = info.Uses[f.Sel].(*types.Func)
		}
	}
	if callee == nil {
		return false
	}
	callee = callee.Origin()
	if fi, ok := x.prog.ByObj[callee]; ok {
		ef := x.eff.Of(fi)
		if len(ef.regions) > 0 {
			return false
		}
		for _, w := range ef.refWrites {
			if w {
				return false
			}
		}
		return true
	}
	if callee.Pkg() != nil && callee.Pkg().Path() == "math" {
		return true
	}
	return false
}

// typeArgsOf maps the type parameters of a generic callee to the type arguments of this call.
func (x *Xlat) typeArgsOf(fr *Frame, ce *ast.CallExpr, recv ast.Expr, sig *types.Signature) map[*types.TypeParam]types.Type {
	info := fr.info()
	out := map[*types.TypeParam]types.Type{}
	if tps := sig.TypeParams(); tps != nil && tps.Len() > 0 {
		var id *ast.Ident
		switch f := ast.Unparen(ce.Fun).(type) {
		case *ast.Ident:
			id = f
		case *ast.SelectorExpr:
			id = f.Sel
		case *ast.IndexExpr:
			switch g := ast.Unparen(f.X).(type) {
			case *ast.Ident:
				id = g
			case *ast.SelectorExpr:
				id = g.Sel
			}
		}
		if id != nil {
			if inst, ok := info.Instances[id]; ok && inst.TypeArgs != nil {
				for i := 0; i < tps.Len() && i < inst.TypeArgs.Len(); i++ {
					out[tps.At(i)] = inst.TypeArgs.At(i)
				}
			}
		}
	}
	if rtps := sig.RecvTypeParams(); rtps != nil && rtps.Len() > 0 && recv != nil {
		rt := types.Unalias(info.TypeOf(recv))
		if p, ok := rt.Underlying().(*types.Pointer); ok {
			rt = types.Unalias(p.Elem())
		}
		rt = types.Unalias(x.tm.resolve(rt))
		if n, ok := rt.(*types.Named); ok && n.TypeArgs() != nil {
			for i := 0; i < rtps.Len() && i < n.TypeArgs().Len(); i++ {
				out[rtps.At(i)] = x.tm.resolve(n.TypeArgs().At(i))
			}
		}
	}
	return out
}

// setElems installs a new elements heap and adds the derived frame fact over at():
// every element not touched by the write keeps its value. touched(t, j) describes the written window.
func (x *Xlat) setElems(st *State, key string, es Sort, hOld, hNew *Term, touched func(t, j *Term) *Term) *Term {
	h2 := x.ctx.Define(key, hNew)
	st.env[key] = h2
	tb, jb := Const("t!", SSlice), Const("j!", SInt)
	lhs := x.atTerm(h2, tb, jb, es)
	// two alternative triggers: a read in the new heap pulls in the old value, and a read in the old heap (e.g. the
	// witness of an existential established before the write) is carried forward to the new heap
	st.assume(Forall([]Bind{{"t!", SSlice}, {"j!", SInt}}, Imp(Not(touched(tb, jb)), Eq(lhs, x.atTerm(hOld, tb, jb, es))), []*Term{lhs}, []*Term{x.atTerm(hOld, tb, jb, es)}))
	return h2
}

func touchedArr(a *Term) func(t, j *Term) *Term {
	return func(t, j *Term) *Term { return Eq(SArr(t), a) }
}

func touchedWindow(s, n *Term) func(t, j *Term) *Term {
	return func(t, j *Term) *Term {
		p := App("+", SInt, SOff(t), j)
		return And(Eq(SArr(t), SArr(s)), App(">=", SBool, p, SOff(s)), App("<", SBool, p, App("+", SInt, SOff(s), n)))
	}
}

// lockCall: before a call that is not inlined the whole state and the arguments must be coupled
// (the callee's relational contract is "coupled in => coupled out").
func (x *Xlat) lockCall(st *State, fi *FuncInfo, args []Arg, pos token.Pos) {
	x.lockState(st, x.lockAllKeys(st), "call", pos)
	for i, a := range args {
		if a.v == nil {
			continue
		}
		at := x.twin(a.v)
		if at == a.v {
			continue
		}
		x.lockEmit(st, fmt.Sprintf("%s/lockstep.arg.%s.%d#%d", x.curFunc, fi.Key, i, x.bump("lock.arg")), x.coupPair(a.v, at), pos, fmt.Sprintf("argument %d of %s is coupled", i, fi.Key))
	}
}
