package main

// SMT context: symbol registry (constants, definitions, datatypes, functions, axioms)
// and query assembly restricted to the cone of influence of the goal.

import (
	"fmt"
	"strings"
)

type DTField struct {
	Name string
	Sort Sort
}

type Datatype struct {
	Name   string
	Ctor   string
	Fields []DTField
}

type FuncDecl struct {
	Name   string
	Params []Sort
	Ret    Sort
	Axioms []*Term // included whenever the function is referenced
	// builtin functions declared in the fixed preamble need no declaration
	Builtin bool
}

type Ctx struct {
	consts   map[string]Sort  // declared constants
	defs     map[string]*Term // definitional equalities: const = term
	dts      []*Datatype
	dtByName map[string]*Datatype
	funcs    map[string]*FuncDecl
	sorts    []string // uninterpreted sorts
	fresh    map[string]int
	// global axioms always included (about null etc.)
	globalAxioms []*Term
	constAxioms  map[string][]*Term // facts attached to a constant, included when it is referenced
	named        map[string]*Term
	rawDTs       []string
	noDefine     int
}

func NewCtx() *Ctx {
	c := &Ctx{
		consts:   map[string]Sort{},
		defs:     map[string]*Term{},
		dtByName: map[string]*Datatype{},
		funcs:    map[string]*FuncDecl{},
		fresh:    map[string]int{},
		constAxioms: map[string][]*Term{},
		named: map[string]*Term{},
	}
	c.sorts = []string{"Ref", "Str", "FuncV", "Iface"}
	c.consts["null"] = SRef
	c.AddDatatype(&Datatype{Name: "Slice", Ctor: "mk_Slice", Fields: []DTField{
		{"s_arr", SInt}, {"s_off", SInt}, {"s_len", SInt}, {"s_cap", SInt}}})
	return c
}

func (c *Ctx) AddDatatype(d *Datatype) {
	if _, ok := c.dtByName[d.Name]; ok {
		return
	}
	c.dts = append(c.dts, d)
	c.dtByName[d.Name] = d
}

// AddDatatype2 registers a raw datatype declaration (multi-constructor).
func (c *Ctx) AddDatatype2(decl string) {
	for _, d := range c.rawDTs {
		if d == decl {
			return
		}
	}
	c.rawDTs = append(c.rawDTs, decl)
}

func (c *Ctx) Fresh(base string, s Sort) *Term {
	base = sanitize(base)
	c.fresh[base]++
	name := fmt.Sprintf("%s!%d", base, c.fresh[base])
	c.consts[name] = s
	return Const(name, s)
}

// Named returns a constant declared once with a stable name.
func (c *Ctx) Named(name string, s Sort) *Term {
	name = sanitize(name)
	if old, ok := c.consts[name]; ok && old != s {
		panic("const " + name + " redeclared with sort " + s + " (was " + old + ")")
	}
	c.consts[name] = s
	if t, ok := c.named[name]; ok {
		return t
	}
	t := Const(name, s)
	c.named[name] = t
	return t
}

// Define introduces a fresh constant equal to t (a conservative extension).
func (c *Ctx) Define(base string, t *Term) *Term {
	if len(t.Args) == 0 && t.Q == "" {
		return t
	}
	if c.noDefine > 0 {
		// under a quantifier: a top-level definition would capture the bound variables
		return t
	}
	k := c.Fresh(base, t.Sort)
	c.defs[k.Op] = t
	return k
}

func sanitize(s string) string {
	var sb strings.Builder
	for _, r := range s {
		switch {
		case r >= 'a' && r <= 'z', r >= 'A' && r <= 'Z', r >= '0' && r <= '9', r == '_', r == '.', r == '$', r == '!', r == '@', r == '#', r == '%':
			sb.WriteRune(r)
		default:
			sb.WriteRune('_')
		}
	}
	return sb.String()
}

func (c *Ctx) DeclareFunc(f *FuncDecl) {
	if _, ok := c.funcs[f.Name]; ok {
		return
	}
	c.funcs[f.Name] = f
}

// Query builds an SMT-LIB script checking satisfiability of the conjunction of hyps and (not goal).
func (c *Ctx) Query(hyps []*Term, goal *Term, opts QueryOpts) string {
	needC := map[string]bool{}
	needF := map[string]bool{}
	var work []*Term
	work = append(work, hyps...)
	if goal != nil {
		work = append(work, goal)
	}
	work = append(work, c.globalAxioms...)
	seenC := map[string]bool{}
	seenF := map[string]bool{}
	var defOrder []string
	var caOrder []string
	for len(work) > 0 {
		t := work[len(work)-1]
		work = work[:len(work)-1]
		cs := map[string]bool{}
		fs := map[string]bool{}
		t.FreeSyms(cs, fs, map[string]int{})
		for _, k := range sortedKeys(cs) {
			if seenC[k] {
				continue
			}
			seenC[k] = true
			needC[k] = true
			if d, ok := c.defs[k]; ok {
				defOrder = append(defOrder, k)
				work = append(work, d)
			}
			if as, ok := c.constAxioms[k]; ok {
				caOrder = append(caOrder, k)
				work = append(work, as...)
			}
		}
		for _, k := range sortedKeys(fs) {
			if seenF[k] {
				continue
			}
			seenF[k] = true
			if fd, ok := c.funcs[k]; ok {
				needF[k] = true
				work = append(work, fd.Axioms...)
			}
		}
	}
	var sb strings.Builder
	if opts.ProduceModels {
		sb.WriteString("(set-option :produce-models true)\n")
	}
	if opts.Logic != "" {
		sb.WriteString("(set-logic " + opts.Logic + ")\n")
	}
	for _, s := range c.sorts {
		sb.WriteString("(declare-sort " + s + " 0)\n")
	}
	for _, d := range c.dts {
		sb.WriteString("(declare-datatypes ((" + d.Name + " 0)) (((" + d.Ctor)
		for _, f := range d.Fields {
			sb.WriteString(" (" + f.Name + " " + f.Sort + ")")
		}
		sb.WriteString("))))\n")
	}
	for _, d := range c.rawDTs {
		sb.WriteString(d + "\n")
	}
	for _, k := range sortedKeys(needC) {
		s, ok := c.consts[k]
		if !ok {
			// unknown symbol: probably a bound variable leak; declare nothing and let the solver complain
			sb.WriteString("; WARNING undeclared symbol " + k + "\n")
			continue
		}
		sb.WriteString("(declare-const " + k + " " + s + ")\n")
	}
	for _, k := range sortedKeys(needF) {
		fd := c.funcs[k]
		if fd.Builtin {
			continue
		}
		sb.WriteString("(declare-fun " + fd.Name + " (" + strings.Join(fd.Params, " ") + ") " + fd.Ret + ")\n")
	}
	for _, a := range c.globalAxioms {
		sb.WriteString("(assert " + a.String() + ")\n")
	}
	for _, k := range sortedKeys(needF) {
		for _, a := range c.funcs[k].Axioms {
			sb.WriteString("(assert " + a.String() + ")\n")
		}
	}
	for _, k := range caOrder {
		for _, a := range c.constAxioms[k] {
			sb.WriteString("(assert " + a.String() + ")\n")
		}
	}
	// definitions (order irrelevant for satisfiability)
	sortedDefs := append([]string(nil), defOrder...)
	for _, k := range sortedDefs {
		sb.WriteString("(assert (= " + k + " " + c.defs[k].String() + "))\n")
	}
	for _, h := range hyps {
		if h.IsTrue() {
			continue
		}
		sb.WriteString("(assert " + h.String() + ")\n")
	}
	if goal != nil {
		sb.WriteString("(assert (not " + goal.String() + "))\n")
	}
	sb.WriteString("(check-sat)\n")
	if opts.ProduceModels {
		sb.WriteString("(get-model)\n")
	}
	return sb.String()
}

type QueryOpts struct {
	ProduceModels bool
	Logic         string
}

// QueryArith builds a purely arithmetic weakening of the obligation: every maximal sub-term that is not built from
// arithmetic / Boolean operators is replaced by an opaque constant (the same term always by the same constant), quantified
// hypotheses are dropped. Any model of the original query induces a model of this one, so "unsat" here is a valid proof.
// It lets nlsat decide obligations that are non-linear real arithmetic at heart.
func (c *Ctx) QueryArith(hyps []*Term, goal *Term) string {
	arith := map[string]bool{"+": true, "-": true, "*": true, "/": true, "<": true, "<=": true, ">": true, ">=": true, "=": true,
		"and": true, "or": true, "not": true, "=>": true, "ite": true, "to_real": true}
	opaque := map[string]string{}
	osort := map[string]Sort{}
	var order []string
	mkOpaque := func(t *Term) *Term {
		k := t.String()
		n, ok := opaque[k]
		if !ok {
			n = fmt.Sprintf("o!%d", len(opaque))
			opaque[k] = n
			osort[n] = t.Sort
			order = append(order, n)
		}
		return Const(n, t.Sort)
	}
	defsUsed := map[string]bool{}
	var defOrder []string
	var abs func(t *Term) *Term
	abs = func(t *Term) *Term {
		if t.Q != "" {
			return mkOpaque(t)
		}
		if t.Sort != SReal && t.Sort != SInt && t.Sort != SBool {
			return nil
		}
		if len(t.Args) == 0 {
			if t.lit || t.Op == "true" || t.Op == "false" {
				return t
			}
			if _, isDef := c.defs[t.Op]; isDef && !defsUsed[t.Op] {
				defsUsed[t.Op] = true
				defOrder = append(defOrder, t.Op)
			}
			return t
		}
		if !arith[t.Op] {
			return mkOpaque(t)
		}
		args := make([]*Term, len(t.Args))
		for i, a := range t.Args {
			if t.Op == "=" && a.Sort != SReal && a.Sort != SInt && a.Sort != SBool {
				return mkOpaque(t)
			}
			r := abs(a)
			if r == nil {
				return mkOpaque(t)
			}
			args[i] = r
		}
		return &Term{Op: t.Op, Args: args, Sort: t.Sort}
	}
	var asserts []*Term
	for _, h := range hyps {
		if h.Q != "" {
			continue
		}
		if a := abs(h); a != nil {
			asserts = append(asserts, a)
		}
	}
	var g *Term
	if goal != nil {
		g = abs(goal)
	}
	// definitions of arithmetic constants (transitively)
	var defAsserts []*Term
	consts := map[string]Sort{}
	for i := 0; i < len(defOrder); i++ {
		k := defOrder[i]
		d := c.defs[k]
		if d.Sort != SReal && d.Sort != SInt && d.Sort != SBool {
			continue
		}
		if a := abs(d); a != nil {
			defAsserts = append(defAsserts, App("=", SBool, Const(k, d.Sort), a))
		}
	}
	collect := func(t *Term) {
		cs, fs := map[string]bool{}, map[string]bool{}
		t.FreeSyms(cs, fs, map[string]int{})
		for k := range cs {
			if s, ok := c.consts[k]; ok {
				consts[k] = s
			}
		}
	}
	for _, a := range asserts {
		collect(a)
	}
	for _, a := range defAsserts {
		collect(a)
	}
	if g != nil {
		collect(g)
	}
	// pure real arithmetic when the goal allows it: drop everything that mentions an integer (a further weakening)
	var hasInt func(t *Term) bool
	hasInt = func(t *Term) bool {
		if t.Sort == SInt {
			return true
		}
		for _, a := range t.Args {
			if hasInt(a) {
				return true
			}
		}
		return false
	}
	realOnly := g != nil && !hasInt(g)
	if realOnly {
		filter := func(in []*Term) []*Term {
			var out []*Term
			for _, a := range in {
				if !hasInt(a) {
					out = append(out, a)
				}
			}
			return out
		}
		asserts = filter(asserts)
		defAsserts = filter(defAsserts)
	}
	var sb strings.Builder
	if realOnly {
		sb.WriteString("(set-logic QF_NRA)\n")
	}
	for _, k := range sortedKeys(consts) {
		s := consts[k]
		if s != SReal && s != SInt && s != SBool {
			continue
		}
		if realOnly && s == SInt {
			continue
		}
		sb.WriteString("(declare-const " + k + " " + s + ")\n")
	}
	for _, n := range order {
		if realOnly && osort[n] == SInt {
			continue
		}
		sb.WriteString("(declare-const " + n + " " + osort[n] + ")\n")
	}
	for _, a := range defAsserts {
		sb.WriteString("(assert " + a.String() + ")\n")
	}
	for _, a := range asserts {
		sb.WriteString("(assert " + a.String() + ")\n")
	}
	if g != nil {
		sb.WriteString("(assert (not " + g.String() + "))\n")
	}
	sb.WriteString("(check-sat)\n")
	return sb.String()
}
