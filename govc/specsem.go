package main

// Evaluation of spec expressions to SMT terms in a symbolic state.

import (
	"fmt"
	"go/token"
	"go/types"
	"math/big"
	"strings"
)

type SpecVal struct {
	t     *Term
	typ   types.Type
	place Place
}

type SpecEnv struct {
	x       *Xlat
	cur     *State
	old     *State
	loopOld *State
	vars    map[string]SpecVal
	fr      *Frame
	pos     token.Pos
	pkg     *types.Package
	results []SpecVal
	resNames []string
	bound   []map[string]SpecVal
	mode    int // 0 cur, 1 old, 2 loopold
	defining string // spec function being defined (recursion placeholder)
	recDeps  []string
	recPass2 bool
}

type specError struct{ msg string }

func (env *SpecEnv) fail(f string, a ...any) {
	panic(specError{fmt.Sprintf(f, a...)})
}

func (x *Xlat) newSpecEnv(cur, old *State, pkg *types.Package) *SpecEnv {
	return &SpecEnv{x: x, cur: cur, old: old, vars: map[string]SpecVal{}, pkg: pkg}
}

// newSpecEnvFrame: names resolve through the Go scopes of the frame at pos.
func (x *Xlat) newSpecEnvFrame(st *State, fr *Frame, pos token.Pos) *SpecEnv {
	env := &SpecEnv{x: x, cur: st, vars: map[string]SpecVal{}, fr: fr, pos: pos, pkg: fr.pkg.Types}
	for f := fr; f != nil; f = f.caller {
		if f.entry != nil {
			env.old = f.entry
			break
		}
	}
	if len(fr.loopEntry) > 0 {
		env.loopOld = fr.loopEntry[len(fr.loopEntry)-1]
	}
	return env
}

func (env *SpecEnv) setResults(fi *FuncInfo, rs []*Term) {
	sig := fi.Obj.Type().(*types.Signature)
	if fi.Lit != nil {
		sig = fi.Pkg.TypesInfo.TypeOf(fi.Lit).(*types.Signature)
	}
	for i := 0; i < sig.Results().Len() && i < len(rs); i++ {
		r := sig.Results().At(i)
		env.results = append(env.results, SpecVal{t: rs[i], typ: r.Type()})
		env.resNames = append(env.resNames, r.Name())
	}
}

func (env *SpecEnv) state() *State {
	switch env.mode {
	case 1:
		if env.old != nil {
			return env.old
		}
	case 2:
		if env.loopOld != nil {
			return env.loopOld
		}
	}
	return env.cur
}

func (env *SpecEnv) evalBool(e *SExpr) *Term {
	v := env.eval(e)
	if v.t.Sort != SBool {
		env.fail("boolean expected in %s (got %s)", e.String(), v.t.Sort)
	}
	return v.t
}

var tInt = types.Typ[types.Int]
var tReal = types.Typ[types.Float64]
var tBool = types.Typ[types.Bool]

func (x *Xlat) specSort(t types.Type) Sort { return x.tm.SortOf(t) }

func (env *SpecEnv) lookupBound(name string) (SpecVal, bool) {
	for i := len(env.bound) - 1; i >= 0; i-- {
		if v, ok := env.bound[i][name]; ok {
			return v, true
		}
	}
	return SpecVal{}, false
}

func (env *SpecEnv) ident(name string) SpecVal {
	x := env.x
	if v, ok := env.lookupBound(name); ok {
		return v
	}
	if v, ok := env.vars[name]; ok {
		if v.place != nil {
			return SpecVal{t: x.load(env.state(), v.place), typ: derefType(v.typ)}
		}
		return v
	}
	if name == "result" && len(env.results) > 0 {
		return env.results[0]
	}
	for i, n := range env.resNames {
		if n == name && n != "" {
			return env.results[i]
		}
	}
	if strings.HasPrefix(name, "result") && len(name) == 7 && name[6] >= '0' && name[6] <= '9' {
		i := int(name[6] - '0')
		if i < len(env.results) {
			return env.results[i]
		}
	}
	st := env.state()
	if env.fr != nil {
		if k, ok := env.fr.lookupGhost(name); ok {
			if v, ok := st.env[k]; ok {
				return SpecVal{t: v, typ: tInt}
			}
			if v, ok := env.cur.env[k]; ok {
				return SpecVal{t: v, typ: tInt}
			}
		}
		// Go scope lookup
		for f := env.fr; f != nil; f = f.parent {
			var scope *types.Scope
			pos := env.pos
			if f != env.fr {
				pos = token.NoPos
			}
			if f.lit != nil {
				scope = f.pkg.TypesInfo.Scopes[f.lit.Type]
			} else if f.fi != nil {
				scope = f.pkg.TypesInfo.Scopes[f.fi.Decl.Type]
			}
			if scope == nil {
				continue
			}
			var obj types.Object
			if pos.IsValid() {
				if inner := scope.Innermost(pos); inner != nil {
					_, obj = inner.LookupParent(name, pos)
				}
			} else {
				obj = scope.Lookup(name)
			}
			if obj == nil {
				// search nested scopes for a unique variable of that name (locals declared later than pos are invisible otherwise)
				obj = findInScopes(scope, name)
			}
			if v, ok := obj.(*types.Var); ok {
				if k, _, ok := f.lookupVar(v); ok {
					if tv, ok := st.env[k]; ok {
						return SpecVal{t: tv, typ: v.Type()}
					}
					if tv, ok := env.cur.env[k]; ok && env.mode != 0 {
						// not declared in the old state: the current value is meant, but everything read through it
						// would come from the old heap - almost always a mistake unless wrapped in now(...)
						if env.mode == 1 && (tv.Sort == SRef || tv.Sort == SSlice) {
							env.fail("local %s does not exist in the old state: inside old(...) write now(%s...) for the part that is to be read in the current state", name, name)
						}
						return SpecVal{t: tv, typ: v.Type()}
					}
				}
				if p, ok := f.lookupRefParam(v); ok {
					return SpecVal{t: x.load(st, p), typ: derefType(v.Type())}
				}
			}
		}
	}
	// package-level objects
	if env.pkg != nil {
		if obj := env.pkg.Scope().Lookup(name); obj != nil {
			switch o := obj.(type) {
			case *types.Var:
				return SpecVal{t: x.load(st, PVar{"G$" + pkgShort(o.Pkg().Path()) + "." + o.Name(), o.Type()}), typ: o.Type()}
			case *types.Const:
				if t := x.constTerm(types.TypeAndValue{Type: o.Type(), Value: o.Val()}, o.Type()); t != nil {
					return SpecVal{t: t, typ: o.Type()}
				}
			}
		}
	}
	env.fail("unknown identifier %s", name)
	return SpecVal{}
}

func findInScopes(s *types.Scope, name string) types.Object {
	if o := s.Lookup(name); o != nil {
		return o
	}
	for i := 0; i < s.NumChildren(); i++ {
		if o := findInScopes(s.Child(i), name); o != nil {
			return o
		}
	}
	return nil
}

func derefType(t types.Type) types.Type {
	if p, ok := types.Unalias(t).Underlying().(*types.Pointer); ok {
		return p.Elem()
	}
	return t
}

func (env *SpecEnv) eval(e *SExpr) SpecVal {
	x := env.x
	switch e.Kind {
	case "int":
		n := new(big.Int)
		n.SetString(e.Name, 10)
		return SpecVal{t: BigIntLit(n), typ: tInt}
	case "float":
		r := new(big.Rat)
		if _, ok := r.SetString(e.Name); !ok {
			env.fail("bad float literal %s", e.Name)
		}
		return SpecVal{t: RealLitRat(r), typ: tReal}
	case "bool":
		if e.Name == "true" {
			return SpecVal{t: TTrue, typ: tBool}
		}
		return SpecVal{t: TFalse, typ: tBool}
	case "nil":
		return SpecVal{t: TNull, typ: types.Typ[types.UntypedNil]}
	case "str":
		return SpecVal{t: x.strLit(strings.Trim(e.Name, `"`)), typ: types.Typ[types.String]}
	case "ident":
		return env.ident(e.Name)
	case "unary":
		v := env.eval(e.Args[0])
		switch e.Op {
		case "!":
			return SpecVal{t: Not(v.t), typ: tBool}
		case "-":
			return SpecVal{t: App("-", v.t.Sort, v.t), typ: v.typ}
		case "*":
			return v
		}
	case "binary":
		return env.binary(e)
	case "cond":
		c := env.evalBool(e.Args[0])
		a := env.eval(e.Args[1])
		b := env.eval(e.Args[2])
		at, bt := coerceNil(a.t, b.t, x)
		typ := a.typ
		if at.Sort == SInt && bt.Sort == SReal {
			typ = b.typ
		}
		return SpecVal{t: Ite(c, at, bt), typ: typ}
	case "sel":
		return env.sel(e)
	case "index":
		base := env.eval(e.Args[0])
		idx := env.eval(e.Args[1])
		switch u := types.Unalias(base.typ).Underlying().(type) {
		case *types.Slice:
			return SpecVal{t: x.load(env.state(), PElem{base.t, idx.t, u.Elem()}), typ: u.Elem()}
		case *types.Map:
			return SpecVal{t: x.load(env.state(), PMapElem{base.t, x.coerce(idx.t, u.Key()), u.Key(), u.Elem()}), typ: u.Elem()}
		case *types.Array:
			return SpecVal{t: x.arrIndex(base.t, base.typ, idx.t), typ: u.Elem()}
		}
		env.fail("cannot index %s", e.Args[0].String())
	case "call":
		return env.call(e)
	case "quant":
		frame := map[string]SpecVal{}
		var binds []Bind
		var guards []*Term
		for _, b := range e.Binds {
			t, err := x.prog.LookupType(b.Type, env.pkg)
			if err != nil {
				env.fail("%v", err)
			}
			x.qn++
			nm := fmt.Sprintf("%s!q%d", sanitize(b.Name), x.qn)
			srt := x.specSort(t)
			binds = append(binds, Bind{nm, srt})
			bv := Const(nm, srt)
			frame[b.Name] = SpecVal{t: bv, typ: t}
			if isUnsigned(t) {
				guards = append(guards, App(">=", SBool, bv, IntLit(0)))
			}
		}
		env.bound = append(env.bound, frame)
		x.ctx.noDefine++
		body := func() *Term {
			defer func() { x.ctx.noDefine-- }()
			return env.evalBool(e.Args[0])
		}()
		var pats [][]*Term
		for _, p := range e.Pats {
			var pt []*Term
			for _, pe := range p {
				pt = append(pt, env.eval(pe).t)
			}
			pats = append(pats, pt)
		}
		env.bound = env.bound[:len(env.bound)-1]
		if e.Op == "forall" {
			return SpecVal{t: Forall(binds, Imp(And(guards...), body), pats...), typ: tBool}
		}
		return SpecVal{t: Exists(binds, And(append(guards, body)...)), typ: tBool}
	}
	env.fail("cannot evaluate %s", e.String())
	return SpecVal{}
}

func coerceNil(a, b *Term, x *Xlat) (*Term, *Term) {
	if a.Sort != b.Sort {
		if a.Op == "null" {
			a = x.coerceSort(a, b.Sort)
		} else if b.Op == "null" {
			b = x.coerceSort(b, a.Sort)
		}
	}
	return a, b
}

func (env *SpecEnv) binary(e *SExpr) SpecVal {
	x := env.x
	switch e.Op {
	case "&&":
		return SpecVal{t: And(env.evalBool(e.Args[0]), env.evalBool(e.Args[1])), typ: tBool}
	case "||":
		return SpecVal{t: Or(env.evalBool(e.Args[0]), env.evalBool(e.Args[1])), typ: tBool}
	case "==>":
		return SpecVal{t: Imp(env.evalBool(e.Args[0]), env.evalBool(e.Args[1])), typ: tBool}
	case "<==>":
		return SpecVal{t: Eq(env.evalBool(e.Args[0]), env.evalBool(e.Args[1])), typ: tBool}
	}
	a := env.eval(e.Args[0])
	b := env.eval(e.Args[1])
	at, bt := coerceNil(a.t, b.t, x)
	if at.Sort != bt.Sort {
		at, bt = coerce2(at, bt)
	}
	typ := a.typ
	if a.t.Sort == SInt && b.t.Sort == SReal {
		typ = b.typ
	}
	switch e.Op {
	case "==":
		return SpecVal{t: Eq(at, bt), typ: tBool}
	case "!=":
		return SpecVal{t: Not(Eq(at, bt)), typ: tBool}
	case "<", "<=", ">", ">=":
		return SpecVal{t: App(e.Op, SBool, at, bt), typ: tBool}
	case "+", "-", "*":
		return SpecVal{t: App(e.Op, at.Sort, at, bt), typ: typ}
	case "/":
		if at.Sort == SReal {
			return SpecVal{t: App("/", SReal, at, bt), typ: typ}
		}
		return SpecVal{t: goDiv(at, bt), typ: typ}
	case "%":
		return SpecVal{t: App("-", SInt, at, App("*", SInt, bt, goDiv(at, bt))), typ: typ}
	}
	env.fail("operator %s not supported in specs", e.Op)
	return SpecVal{}
}

func (env *SpecEnv) sel(e *SExpr) SpecVal {
	x := env.x
	// qualified package-level variable: pkg.name
	if e.Args[0].Kind == "ident" {
		if _, ok := env.lookupBound(e.Args[0].Name); !ok {
			if _, ok := env.vars[e.Args[0].Name]; !ok {
				for _, p := range x.prog.Pkgs {
					if pkgShort(p.PkgPath) == e.Args[0].Name {
						if o, ok := p.Types.Scope().Lookup(e.Name).(*types.Var); ok {
							// only if there is no local of that name
							if !env.hasLocal(e.Args[0].Name) {
								return SpecVal{t: x.load(env.state(), PVar{"G$" + pkgShort(p.PkgPath) + "." + o.Name(), o.Type()}), typ: o.Type()}
							}
						}
					}
				}
			}
		}
	}
	base := env.eval(e.Args[0])
	bt := types.Unalias(base.typ)
	var pkg *types.Package
	tt := bt
	if p, ok := tt.Underlying().(*types.Pointer); ok {
		tt = types.Unalias(p.Elem())
	}
	if n, ok := tt.(*types.Named); ok {
		pkg = n.Obj().Pkg()
	}
	obj, index, _ := types.LookupFieldOrMethod(bt, true, pkg, e.Name)
	if obj == nil && pkg != nil {
		// promoted unexported field from another package: try all module packages
		for _, p := range x.prog.Pkgs {
			obj, index, _ = types.LookupFieldOrMethod(bt, true, p.Types, e.Name)
			if obj != nil {
				break
			}
		}
	}
	f, ok := obj.(*types.Var)
	if !ok {
		env.fail("no field %s in %s (%s)", e.Name, e.Args[0].String(), bt)
	}
	_ = f
	st := env.state()
	var cur Place
	curT := base.typ
	if pt, ok := bt.Underlying().(*types.Pointer); ok {
		cur = PHeap{base.t, pt.Elem(), nil, pt.Elem()}
		curT = pt.Elem()
	} else {
		cur = PValue{base.t, base.typ}
	}
	for _, idx := range index {
		s, ok := types.Unalias(curT).Underlying().(*types.Struct)
		if !ok {
			pt, ok := types.Unalias(curT).Underlying().(*types.Pointer)
			if !ok {
				env.fail("selector path through %s", curT)
			}
			r := x.load(st, cur)
			cur = PHeap{r, pt.Elem(), nil, pt.Elem()}
			curT = pt.Elem()
			s = types.Unalias(curT).Underlying().(*types.Struct)
		}
		fld := s.Field(idx)
		switch c := cur.(type) {
		case PHeap:
			cur = PHeap{c.ref, c.T, append(append([]string{}, c.names...), fld.Name()), fld.Type()}
		default:
			cur = PField{cur, curT, fld}
		}
		curT = fld.Type()
	}
	return SpecVal{t: x.load(st, cur), typ: curT}
}

func (env *SpecEnv) hasLocal(name string) bool {
	defer func() { recover() }()
	env.ident(name)
	return true
}

func (env *SpecEnv) withMode(m int, f func() SpecVal) SpecVal {
	old := env.mode
	env.mode = m
	defer func() { env.mode = old }()
	return f()
}

func (env *SpecEnv) call(e *SExpr) SpecVal {
	x := env.x
	fn := e.Args[0]
	args := e.Args[1:]
	if fn.Kind == "ident" {
		switch fn.Name {
		case "old":
			return env.withMode(1, func() SpecVal { return env.eval(args[0]) })
		case "loopold":
			return env.withMode(2, func() SpecVal { return env.eval(args[0]) })
		case "now":
			return env.withMode(0, func() SpecVal { return env.eval(args[0]) })
		case "len", "cap":
			v := env.eval(args[0])
			switch types.Unalias(v.typ).Underlying().(type) {
			case *types.Slice:
				if fn.Name == "len" {
					return SpecVal{t: SLen(v.t), typ: tInt}
				}
				return SpecVal{t: SCap(v.t), typ: tInt}
			case *types.Map:
				hl := x.get(env.state(), mapLenKey, ArrSort(SRef, SInt))
				return SpecVal{t: Ite(Eq(v.t, TNull), IntLit(0), Sel(hl, v.t)), typ: tInt}
			}
			env.fail("len of %s", args[0].String())
		case "has", "in":
			// has(m, k): key k present in map m
			m := env.eval(args[0])
			k := env.eval(args[1])
			mt, ok := types.Unalias(m.typ).Underlying().(*types.Map)
			if !ok {
				env.fail("has() on non-map")
			}
			ks := x.tm.SortOf(mt.Key())
			hd := x.get(env.state(), mapDomKey(ks, x.tm.SortOf(mt.Elem())), ArrSort(SRef, ArrSort(ks, SBool)))
			return SpecVal{t: Sel(Sel(hd, m.t), x.coerce(k.t, mt.Key())), typ: tBool}
		case "allocated":
			v := env.eval(args[0])
			al := x.get(env.state(), allocKey, ArrSort(SRef, SBool))
			return SpecVal{t: Sel(al, v.t), typ: tBool}
		case "arr2":
			// arr2(a, b): the [2]T array value {a, b}
			a := env.eval(args[0])
			b := env.eval(args[1])
			at := types.NewArray(a.typ, 2)
			srt := x.tm.SortOf(at)
			return SpecVal{t: App("mk_"+srt, srt, a.t, x.coerceSort(b.t, a.t.Sort)), typ: at}
		case "allocatedArrId":
			v := env.eval(args[0])
			al := x.get(env.state(), arrAllocKey, ArrSort(SInt, SBool))
			return SpecVal{t: Sel(al, v.t), typ: tBool}
		case "allocatedArr":
			v := env.eval(args[0])
			al := x.get(env.state(), arrAllocKey, ArrSort(SInt, SBool))
			return SpecVal{t: Sel(al, SArr(v.t)), typ: tBool}
		case "arr", "off":
			v := env.eval(args[0])
			if fn.Name == "arr" {
				return SpecVal{t: SArr(v.t), typ: tInt}
			}
			return SpecVal{t: SOff(v.t), typ: tInt}
		case "min", "max":
			a := env.eval(args[0])
			for _, o := range args[1:] {
				b := env.eval(o)
				at, bt := a.t, b.t
				if at.Sort != bt.Sort {
					at, bt = coerce2(at, bt)
				}
				typ := a.typ
				if a.t.Sort == SInt && b.t.Sort == SReal {
					typ = b.typ
				}
				if fn.Name == "min" {
					a = SpecVal{t: Ite(App("<=", SBool, at, bt), at, bt), typ: typ}
				} else {
					a = SpecVal{t: Ite(App(">=", SBool, at, bt), at, bt), typ: typ}
				}
			}
			return a
		case "abs":
			a := env.eval(args[0])
			return SpecVal{t: Ite(App(">=", SBool, a.t, zeroOf(a.t.Sort)), a.t, App("-", a.t.Sort, a.t)), typ: a.typ}
		case "real", "float64":
			a := env.eval(args[0])
			return SpecVal{t: ToReal(a.t), typ: tReal}
		case "int":
			a := env.eval(args[0])
			if a.t.Sort == SReal {
				return SpecVal{t: Ite(App(">=", SBool, a.t, RealLit(0)), App("to_int", SInt, a.t), App("-", SInt, App("to_int", SInt, App("-", SReal, a.t)))), typ: tInt}
			}
			return SpecVal{t: a.t, typ: tInt}
		case "post", "pre":
			// post(pkg.Func, label, args...): the named ensures (requires) clause of a contract, instantiated
			if len(args) < 2 {
				env.fail("post(pkg.Func, label, args...) expected")
			}
			key := strings.Trim(args[0].String(), "()")
			fi, ok := x.prog.Funcs[key]
			if !ok || fi.Spec == nil {
				env.fail("post(): no contract for %s", key)
			}
			label := args[1].Name
			var cl *Clause
			list := fi.Spec.Ensures
			if fn.Name == "pre" {
				list = fi.Spec.Requires
			}
			for i, c := range list {
				if c.Name == label || fmt.Sprint(i+1) == label {
					cl = c
				}
			}
			if cl == nil {
				env.fail("post(): contract of %s has no clause %s", key, label)
			}
			ps := x.paramVars(fi)
			if len(args)-2 != len(ps) {
				env.fail("post(%s): %d arguments given for %d parameters", key, len(args)-2, len(ps))
			}
			sub := &SpecEnv{x: x, cur: env.cur, old: env.cur, vars: map[string]SpecVal{}, pkg: fi.Pkg.Types, mode: 0}
			for i, p := range ps {
				v := env.eval(args[2+i])
				sub.vars[p.Name()] = SpecVal{t: x.coerce(v.t, p.Type()), typ: p.Type()}
			}
			x.used[key+" (clause "+label+" used as lemma hypothesis)"] = true
			return SpecVal{t: sub.evalBool(cl.Expr), typ: tBool}
		case "written":
			// written(pkg.var) / written(var): ghost flag "this call wrote the package-level variable"
			name := strings.Trim(args[0].String(), "()")
			if !strings.Contains(name, ".") && env.pkg != nil {
				name = pkgShort(env.pkg.Path()) + "." + name
			}
			if v, ok := env.state().env["GW$"+name]; ok {
				return SpecVal{t: v, typ: tBool}
			}
			return SpecVal{t: TFalse, typ: tBool}
		case "idx":
			// idx() : hidden index of the innermost unnamed range loop
			return env.ident("#idx")
		}
		if sf, ok := x.prog.SpecFns[fn.Name]; ok {
			return env.applySpecFn(sf, args)
		}
		// Go function of the current package
		if env.pkg != nil {
			if o, ok := env.pkg.Scope().Lookup(fn.Name).(*types.Func); ok {
				if fi, ok := x.prog.ByObj[o]; ok {
					return env.callGo(fi, nil, args)
				}
			}
		}
		env.fail("unknown function %s in spec", fn.Name)
	}
	if fn.Kind == "sel" {
		// method call on a value, or pkg.Func
		if fn.Args[0].Kind == "ident" {
			for _, p := range x.prog.Pkgs {
				if pkgShort(p.PkgPath) == fn.Args[0].Name && !env.hasLocal(fn.Args[0].Name) {
					if o, ok := p.Types.Scope().Lookup(fn.Name).(*types.Func); ok {
						if fi, ok := x.prog.ByObj[o]; ok {
							return env.callGo(fi, nil, args)
						}
					}
				}
			}
		}
		recv := env.eval(fn.Args[0])
		var pkg *types.Package
		tt := types.Unalias(recv.typ)
		if p, ok := tt.Underlying().(*types.Pointer); ok {
			tt = types.Unalias(p.Elem())
		}
		if n, ok := tt.(*types.Named); ok {
			pkg = n.Obj().Pkg()
		}
		obj, _, _ := types.LookupFieldOrMethod(recv.typ, true, pkg, fn.Name)
		if m, ok := obj.(*types.Func); ok {
			if fi, ok := x.prog.ByObj[m.Origin()]; ok {
				return env.callGo(fi, &recv, args)
			}
		}
		env.fail("unknown method %s", fn.Name)
	}
	env.fail("cannot call %s", fn.String())
	return SpecVal{}
}

// callGo evaluates a side-effect-free Go function of the module inside a spec by inlining its body.
func (env *SpecEnv) callGo(fi *FuncInfo, recv *SpecVal, args []*SExpr) SpecVal {
	x := env.x
	ef := x.eff.Of(fi)
	if len(ef.regions) > 0 {
		env.fail("Go function %s used in a spec is not side-effect free", fi.Key)
	}
	var as []Arg
	sig := fi.Obj.Type().(*types.Signature)
	if recv != nil {
		v := recv.t
		// value receiver called on pointer
		if _, recvIsPtr := types.Unalias(sig.Recv().Type()).Underlying().(*types.Pointer); !recvIsPtr {
			if pt, ok := types.Unalias(recv.typ).Underlying().(*types.Pointer); ok {
				v = x.load(env.state(), PHeap{v, pt.Elem(), nil, pt.Elem()})
			}
		}
		as = append(as, Arg{v: v})
	}
	for _, a := range args {
		as = append(as, Arg{v: env.eval(a).t})
	}
	st := env.state().clone()
	saved := x.noSafety
	savedTP := x.trackPanic
	x.noSafety = true
	x.trackPanic = false
	defer func() { x.noSafety = saved; x.trackPanic = savedTP }()
	fr := x.newFrame(fi, nil, nil, nil)
	fr.depth = 3
	out := &Outcomes{}
	fr2 := x.newFrame(fi, nil, nil, fr)
	x.bindParams(st, fr2, x.paramVars(fi), as, token.NoPos)
	rs := x.runInlined(st, fr2, out, fi.Pkg.TypesInfo, fi.Decl.Type, fi.Decl.Body, token.NoPos)
	if len(rs) == 0 {
		env.fail("Go function %s returns nothing", fi.Key)
	}
	return SpecVal{t: rs[0], typ: sig.Results().At(0).Type()}
}

// ---------------------------------------------------------------------------
// spec functions

type specFnInfo struct {
	deps    []string // region keys read
	depSort []Sort
	declared bool
	recursive bool
	retType types.Type
	paramTypes []types.Type
}

func (env *SpecEnv) applySpecFn(sf *SpecFunc, args []*SExpr) SpecVal {
	x := env.x
	if len(args) != len(sf.Params) {
		env.fail("spec function %s expects %d arguments", sf.Name, len(sf.Params))
	}
	var avs []SpecVal
	for _, a := range args {
		avs = append(avs, env.eval(a))
	}
	info := x.specFnInfo(sf, env)
	if !info.recursive && sf.Body != nil && !sf.Opaque {
		// macro expansion
		frame := map[string]SpecVal{}
		for i, p := range sf.Params {
			frame[p.Name] = SpecVal{t: x.coerce(avs[i].t, info.paramTypes[i]), typ: info.paramTypes[i]}
		}
		sub := &SpecEnv{x: x, cur: env.cur, old: env.old, loopOld: env.loopOld, vars: map[string]SpecVal{}, pkg: env.pkg, mode: env.mode}
		sub.bound = []map[string]SpecVal{frame}
		v := sub.eval(sf.Body)
		return SpecVal{t: x.coerce(v.t, info.retType), typ: info.retType}
	}
	// declared function with heap arguments
	var targs []*Term
	st := env.state()
	if info.recursive {
		// fuel: limits unfolding of the defining axiom (no matching loops)
		if x.specPlaceholder[sf.Name] {
			targs = append(targs, Const("fuel!", "Fuel"))
		} else {
			targs = append(targs, fuelTerm(2))
		}
	}
	for i, k := range info.deps {
		targs = append(targs, x.get(st, k, info.depSort[i]))
	}
	for i, a := range avs {
		targs = append(targs, x.coerce(a.t, info.paramTypes[i]))
	}
	return SpecVal{t: App("sf$"+sf.Name, x.specSort(info.retType), targs...), typ: info.retType}
}

func (x *Xlat) specFnInfo(sf *SpecFunc, env *SpecEnv) *specFnInfo {
	if inf, ok := x.specInfos[sf.Name]; ok {
		return inf
	}
	inf := &specFnInfo{}
	x.specInfos[sf.Name] = inf
	var pkgT *types.Package
	if env != nil {
		pkgT = env.pkg
	}
	for _, p := range sf.Params {
		t, err := x.prog.LookupType(p.Type, pkgT)
		if err != nil {
			panic(specError{fmt.Sprintf("spec %s: %v", sf.Name, err)})
		}
		inf.paramTypes = append(inf.paramTypes, t)
	}
	rt, err := x.prog.LookupType(sf.Ret, pkgT)
	if err != nil {
		panic(specError{fmt.Sprintf("spec %s: %v", sf.Name, err)})
	}
	inf.retType = rt
	inf.recursive = sf.Body != nil && mentionsCall(sf.Body, sf.Name)
	if sf.Body == nil || inf.recursive || sf.Opaque {
		x.declareSpecFn(sf, inf, pkgT)
	}
	return inf
}

func mentionsCall(e *SExpr, name string) bool {
	if e.Kind == "call" && e.Args[0].Kind == "ident" && e.Args[0].Name == name {
		return true
	}
	for _, a := range e.Args {
		if mentionsCall(a, name) {
			return true
		}
	}
	return false
}

// declareSpecFn declares sf$name with heap dependencies as leading parameters and its defining axiom.
func (x *Xlat) declareSpecFn(sf *SpecFunc, inf *specFnInfo, pkgT *types.Package) {
	// pass 1: find heap dependencies by evaluating the body over an empty state with placeholder recursion
	mk := func(pass2 bool) (*Term, []Bind, *State) {
		st := NewState()
		sub := &SpecEnv{x: x, cur: st, vars: map[string]SpecVal{}, pkg: pkgT}
		frame := map[string]SpecVal{}
		var binds []Bind
		for i, p := range sf.Params {
			nm := fmt.Sprintf("%s!p", sanitize(p.Name))
			srt := x.specSort(inf.paramTypes[i])
			binds = append(binds, Bind{nm, srt})
			frame[p.Name] = SpecVal{t: Const(nm, srt), typ: inf.paramTypes[i]}
		}
		sub.bound = []map[string]SpecVal{frame}
		if sf.Body == nil {
			return nil, binds, st
		}
		v := sub.eval(sf.Body)
		return x.coerce(v.t, inf.retType), binds, st
	}
	collectDeps := func(ts ...*Term) {
		seen := map[string]bool{}
		for _, k := range inf.deps {
			seen[k] = true
		}
		for _, t := range ts {
			if t == nil {
				continue
			}
			cs, fs := map[string]bool{}, map[string]bool{}
			// expand definitions
			work := []*Term{t}
			visited := map[string]bool{}
			for len(work) > 0 {
				u := work[len(work)-1]
				work = work[:len(work)-1]
				c2 := map[string]bool{}
				u.FreeSyms(c2, fs, map[string]int{})
				for k := range c2 {
					if visited[k] {
						continue
					}
					visited[k] = true
					cs[k] = true
					if d, ok := x.ctx.defs[k]; ok {
						work = append(work, d)
					}
				}
			}
			for _, k := range sortedKeys(cs) {
				if strings.HasSuffix(k, "@0") && isRegionKey(k[:len(k)-2]) {
					key := k[:len(k)-2]
					if !seen[key] {
						seen[key] = true
						inf.deps = append(inf.deps, key)
						inf.depSort = append(inf.depSort, x.ctx.consts[k])
					}
				}
			}
		}
	}
	var axTerms []*Term
	var axEnvs []*SpecEnv
	_ = axEnvs
	body1, _, _ := mk(false)
	collectDeps(body1)
	// axioms may add dependencies as well
	evalAxiom := func(c *Clause) *Term {
		st := NewState()
		sub := &SpecEnv{x: x, cur: st, vars: map[string]SpecVal{}, pkg: pkgT}
		return sub.evalBool(c.Expr)
	}
	for _, a := range sf.Axioms {
		axTerms = append(axTerms, evalAxiom(a))
	}
	collectDeps(axTerms...)
	inf.declared = true
	// declaration
	var psorts []Sort
	if inf.recursive {
		x.ctx.AddDatatype2(fuelDT)
		psorts = append(psorts, "Fuel")
	}
	psorts = append(psorts, inf.depSort...)
	for _, t := range inf.paramTypes {
		psorts = append(psorts, x.specSort(t))
	}
	fd := &FuncDecl{Name: "sf$" + sf.Name, Params: psorts, Ret: x.specSort(inf.retType)}
	x.ctx.DeclareFunc(fd)
	// heap binders
	var hbinds []Bind
	subst := map[string]*Term{}
	for i, k := range inf.deps {
		nm := fmt.Sprintf("h%d!", i)
		hbinds = append(hbinds, Bind{nm, inf.depSort[i]})
		subst[sanitize(k+"@0")] = Const(nm, inf.depSort[i])
	}
	expand := func(t *Term) *Term {
		// inline definitions that (transitively) mention heap constants or bound params, then substitute
		return x.inlineDefs(t).Subst(subst)
	}
	if sf.Body != nil && inf.recursive {
		x.specPlaceholder[sf.Name] = true
		body2, binds, _ := mk(true)
		delete(x.specPlaceholder, sf.Name)
		var hargs []*Term
		for _, b := range hbinds {
			hargs = append(hargs, Const(b.Name, b.Sort))
		}
		for _, b := range binds {
			hargs = append(hargs, Const(b.Name, b.Sort))
		}
		fv := Const("fuel!", "Fuel")
		lhs := App("sf$"+sf.Name, fd.Ret, append([]*Term{App("FS", "Fuel", fv)}, hargs...)...)
		low := App("sf$"+sf.Name, fd.Ret, append([]*Term{fv}, hargs...)...)
		all := append(append([]Bind{{"fuel!", "Fuel"}}, hbinds...), binds...)
		fd.Axioms = append(fd.Axioms, Forall(all, Eq(lhs, expand(body2)), []*Term{lhs}))
		fd.Axioms = append(fd.Axioms, Forall(all, Eq(lhs, low), []*Term{lhs}))
	} else if sf.Body != nil {
		body2, binds, _ := mk(true)
		var fargs []*Term
		for _, b := range hbinds {
			fargs = append(fargs, Const(b.Name, b.Sort))
		}
		for _, b := range binds {
			fargs = append(fargs, Const(b.Name, b.Sort))
		}
		lhs := App("sf$"+sf.Name, fd.Ret, fargs...)
		all := append(append([]Bind{}, hbinds...), binds...)
		ax := Forall(all, Eq(lhs, expand(body2)), []*Term{lhs})
		fd.Axioms = append(fd.Axioms, ax)
	}
	for _, a := range sf.Axioms {
		t := evalAxiom(a)
		t = expand(t)
		if len(hbinds) > 0 {
			t = Forall(hbinds, t)
		}
		fd.Axioms = append(fd.Axioms, t)
	}
}

// inlineDefs replaces defined constants by their definitions (recursively).
func (x *Xlat) inlineDefs(t *Term) *Term {
	for i := 0; i < 50; i++ {
		cs, fs := map[string]bool{}, map[string]bool{}
		t.FreeSyms(cs, fs, map[string]int{})
		m := map[string]*Term{}
		for k := range cs {
			if d, ok := x.ctx.defs[k]; ok {
				m[k] = d
			}
		}
		if len(m) == 0 {
			return t
		}
		t = t.Subst(m)
	}
	return t
}

var fuelDT = "(declare-datatypes ((Fuel 0)) (((FZ) (FS (fpred Fuel)))))"

func fuelTerm(n int) *Term {
	t := &Term{Op: "FZ", Sort: "Fuel", lit: true}
	for i := 0; i < n; i++ {
		t = App("FS", "Fuel", t)
	}
	return t
}
