package main

// Property checks: MANIFEST entry point. Generates and discharges the obligations a property stands on,
// writes evidence/<id>.json, prints VIOLATION / KNOWN-FINDING lines.

import (
	"bufio"
	"crypto/sha1"
	"encoding/json"
	"flag"
	"fmt"
	"os"
	"path/filepath"
	"runtime"
	"sort"
	"strconv"
	"strings"
	"time"
)

type PropCfg struct {
	Title    string   `json:"title"`
	Funcs    []string `json:"funcs"`    // functions verified against their contracts (ensures, invariants, call.pre, decreases)
	Safety   []string `json:"safety"`   // functions whose safety obligations are part of the claim as well
	Lemmas   []string `json:"lemmas"`   // lemma names
	Modes    []string `json:"modes"`    // extra analyses: inventory.maprange, commute, frame.globals, opaque.ids, lockstep, ...
	Lockstep []string `json:"lockstep"` // functions verified in lockstep (x2 scaling) mode
	BV       []string `json:"bv"`       // bit-vector mode checks
	Assumed  []string `json:"assumed"`  // contracts/facts the property chain assumes (named residue)
	Unverified []string `json:"unverified"`
	Sweep      bool     `json:"sweep"` // list every function reachable from Layout that is not in the claimed set as unverified
	Paper    []string `json:"paper"`    // paper lemmas / meta-arguments
	Bounded  []string `json:"bounded"`
	Notes    string   `json:"notes"`
	AllowedGlobalWriters map[string][]string `json:"allowed_global_writers"`
	AllowedNondet        map[string][]string `json:"allowed_nondet"`
	AllowedGlobals       []string            `json:"allowed_globals"`
	Except               map[string][]string `json:"except"` // function -> description substrings: matching obligations are not claimed (listed as assumed), whatever their ordinal
	FieldWriters         map[string][]string `json:"field_writers"` // field.writers: struct field -> functions that may assign it
	AllowedIDMapKeys     []string            `json:"allowed_id_map_keys"`
}

type KnownFinding struct {
	Kind       string // known | fixed
	Property   string
	Obligation string
	Text       string
}

func readKnownFindings(path string) []KnownFinding {
	f, err := os.Open(path)
	if err != nil {
		return nil
	}
	defer f.Close()
	var out []KnownFinding
	sc := bufio.NewScanner(f)
	for sc.Scan() {
		ln := strings.TrimSpace(sc.Text())
		if ln == "" || strings.HasPrefix(ln, "#") {
			continue
		}
		kf := KnownFinding{}
		switch {
		case strings.HasPrefix(ln, "known:"):
			kf.Kind = "known"
			ln = strings.TrimSpace(ln[6:])
		case strings.HasPrefix(ln, "fixed:"):
			kf.Kind = "fixed"
			ln = strings.TrimSpace(ln[6:])
		default:
			continue
		}
		fs := strings.Fields(ln)
		rest := []string{}
		for _, w := range fs {
			switch {
			case strings.HasPrefix(w, "property="):
				kf.Property = w[9:]
			case strings.HasPrefix(w, "obligation="):
				kf.Obligation = w[11:]
			default:
				rest = append(rest, w)
			}
		}
		kf.Text = strings.Join(rest, " ")
		out = append(out, kf)
	}
	return out
}

type Evidence struct {
	PropertyID  string         `json:"property_id"`
	Tier        string         `json:"tier"`
	Seed        int            `json:"seed"`
	Level       string         `json:"level"`
	Coverage    map[string]any `json:"coverage"`
	Assumptions []string       `json:"assumptions"`
	WallS       float64        `json:"wall_s"`
	Violations  int            `json:"violations"`
}

type checkItem struct {
	Name   string
	Kind   string
	Text   string
	Status string // unsat / sat / unknown / timeout / error / missing / spec-error / ok / fail
	Solver string
	Secs   float64
	Query  string
	Output string
	Pos    string
	Good   bool
	Cover  bool
	Func   string
	Replay *ReplayResult
}

func cmdCheck(args []string) int {
	fs := flag.NewFlagSet("check", flag.ExitOnError)
	prop := fs.String("property", "", "property id")
	tier := fs.String("tier", "", "quick|thorough")
	repo := fs.String("repo", "/repo", "repository root")
	evdir := fs.String("evidence", "", "evidence directory (default <verif>/evidence)")
	verbose := fs.Bool("v", false, "verbose")
	fs.Parse(args)
	root := verifRoot()
	if *tier == "" {
		*tier = os.Getenv("VERIF_TIER")
	}
	if *tier == "" {
		*tier = "quick"
	}
	seed := 0
	if s := os.Getenv("VERIF_SEED"); s != "" {
		seed, _ = strconv.Atoi(s)
	}
	if *evdir == "" {
		*evdir = filepath.Join(root, "evidence")
	}
	t0 := time.Now()
	var cfgs map[string]*PropCfg
	data, err := os.ReadFile(filepath.Join(root, "props.json"))
	if err != nil {
		fmt.Fprintln(os.Stderr, "engine error:", err)
		return 2
	}
	if err := json.Unmarshal(data, &cfgs); err != nil {
		fmt.Fprintln(os.Stderr, "engine error: props.json:", err)
		return 2
	}
	pc, ok := cfgs[*prop]
	if !ok {
		fmt.Fprintln(os.Stderr, "engine error: unknown property", *prop)
		return 2
	}
	pr, err := LoadProg(*repo, []string{filepath.Join(root, "spec")})
	if err != nil {
		// the repository does not build/type-check with the hooks on: nothing can be vouched for
		fmt.Fprintln(os.Stderr, "engine error: cannot load repository:", err)
		return 2
	}
	eff := ComputeEffects(pr)
	var items []*checkItem
	var obls []*Obligation
	var reps []*FuncReport
	assumedSet := map[string]bool{}
	modelSet := map[string]bool{}
	fnClass := map[string]string{}
	addRep := func(r *FuncReport, claimSafety bool) {
		reps = append(reps, r)
		if r.Err != "" {
			items = append(items, &checkItem{Name: r.Key + "/translate", Kind: "translate", Text: r.Err, Status: "error", Func: r.Key})
		}
		for _, u := range r.Used {
			assumedSet[u] = true
		}
		for _, u := range r.Havoced {
			assumedSet["(havoc) "+u] = true
		}
		for _, m := range r.Models {
			modelSet[m] = true
		}
		for _, o := range r.Obls {
			if o.Kind == "safety" && !claimSafety {
				continue
			}
			obls = append(obls, o)
		}
	}
	safetySet := map[string]bool{}
	for _, f := range pc.Safety {
		safetySet[f] = true
	}
	seenFn := map[string]bool{}
	// "pkg.Func:kind1,kind2" restricts the claim to obligations whose kind starts with one of the listed prefixes
	kindFilter := map[string][]string{}
	for i, f := range pc.Funcs {
		if k := strings.Index(f, ":"); k >= 0 {
			kindFilter[f[:k]] = strings.Split(f[k+1:], ",")
			pc.Funcs[i] = f[:k]
		}
	}
	for _, f := range append(append([]string{}, pc.Funcs...), pc.Safety...) {
		if seenFn[f] {
			continue
		}
		seenFn[f] = true
		fi, ok := pr.Funcs[f]
		if !ok {
			fi, ok = pr.LitFuncs[f]
		}
		if !ok {
			items = append(items, &checkItem{Name: f + "/exists", Kind: "missing", Text: "function under contract no longer exists", Status: "missing", Func: f})
			continue
		}
		inFuncs := false
		for _, g := range pc.Funcs {
			if g == f {
				inFuncs = true
			}
		}
		if inFuncs && fi.Spec == nil {
			items = append(items, &checkItem{Name: f + "/contract", Kind: "missing", Text: "contract of function is missing", Status: "missing", Func: f})
			continue
		}
		r := VerifyFunc(pr, eff, fi, VerifyOpts{NoSafety: !safetySet[f], View: *prop})
		if r.Trusted != "" {
			fnClass[f] = "A"
			assumedSet[f+" (trusted: "+r.Trusted+")"] = true
			continue
		}
		fnClass[f] = "P"
		if kf, ok := kindFilter[f]; ok {
			var keep []*Obligation
			for _, o := range r.Obls {
				for _, k := range kf {
					// "kind" keeps obligations of that kind; "=text" keeps obligations whose name contains text
					if (strings.HasPrefix(k, "=") && strings.Contains(o.Name, k[1:])) || (!strings.HasPrefix(k, "=") && strings.HasPrefix(o.Kind, k)) || o.Kind == "cover" {
						keep = append(keep, o)
						break
					}
				}
			}
			dropped := map[string]int{}
			for _, o := range r.Obls {
				found := false
				for _, k := range keep {
					if k == o {
						found = true
					}
				}
				if !found && !o.Cover && !(o.Kind == "safety" && !safetySet[f]) {
					dropped[o.Kind]++
				}
			}
			if len(dropped) > 0 {
				var ds []string
				for _, k := range sortedKeys(dropped) {
					ds = append(ds, fmt.Sprintf("%d x %s", dropped[k], k))
				}
				assumedSet[fmt.Sprintf("%s: only obligations of kind %v are claimed for this property; not claimed and therefore assumed on the paths that continue: %s", f, kf, strings.Join(ds, ", "))] = true
			}
			r.Obls = keep
		}
		if ex, ok := pc.Except[f]; ok {
			var keep []*Obligation
			hit := map[string]int{}
			for _, o := range r.Obls {
				drop := ""
				if !o.Cover {
					for _, t := range ex {
						if exceptMatch(o.Text, t) {
							drop = t
							break
						}
					}
				}
				if drop != "" {
					hit[drop]++
					continue
				}
				keep = append(keep, o)
			}
			for _, t := range ex {
				if hit[t] > 0 { // an exclusion that matches nothing is harmless

					assumedSet[fmt.Sprintf("%s: %d obligation(s) described by %q are not claimed (not discharged within this function's contract); assumed on the paths that continue", f, hit[t], t)] = true
				}
			}
			r.Obls = keep
		}
		addRep(r, safetySet[f])
	}
	if len(pc.Lockstep) > 0 {
		set := map[string]bool{}
		for _, f := range pc.Lockstep {
			set[f] = true
		}
		for _, f := range pc.Lockstep {
			if strings.HasPrefix(f, "*") {
				continue // pseudo entry (e.g. *dispatch: calls through interfaces and function values are assumed coupled)
			}
			fi, ok := pr.Funcs[f]
			if !ok {
				items = append(items, &checkItem{Name: f + "/exists", Kind: "missing", Text: "function verified in lockstep no longer exists", Status: "missing", Func: f})
				continue
			}
			r := VerifyFunc(pr, eff, fi, VerifyOpts{View: *prop, Lockstep: set})
			r.Key = f + " (lockstep)"
			fnClass[f+" (lockstep x2)"] = "P"
			for _, o := range r.Obls {
				o.Func = f + " (lockstep x2)"
			}
			addRep(r, false)
		}
	}
	for _, ln := range pc.Lemmas {
		var lem *Lemma
		for _, l := range pr.Lemmas {
			if l.Name == ln {
				lem = l
			}
		}
		if lem == nil {
			items = append(items, &checkItem{Name: "lemma/" + ln, Kind: "missing", Text: "lemma no longer exists", Status: "missing"})
			continue
		}
		addRep(VerifyLemma(pr, eff, lem), false)
	}
	for _, e := range pr.SpecErrs {
		items = append(items, &checkItem{Name: "spec/parse", Kind: "spec-error", Text: e, Status: "error"})
	}
	for _, e := range pr.Orphans {
		// orphaned contracts only matter for this property if they name one of its functions
		for f := range seenFn {
			if strings.Contains(e, " "+strings.SplitN(f, ".", 2)[1]) {
				items = append(items, &checkItem{Name: f + "/contract", Kind: "missing", Text: e, Status: "missing", Func: f})
			}
		}
	}
	// extra modes
	mc := &modeCtx{pr: pr, eff: eff, pc: pc, prop: *prop}
	for _, m := range pc.Modes {
		items = append(items, runModeCtx(m, mc)...)
	}
	obls = append(obls, mc.obls...)
	// solve
	cfg := &SolverCfg{Timeout: 45 * time.Second, WorkDir: workDir(), Seed: seed}
	if *tier == "thorough" {
		cfg.Timeout = 120 * time.Second
		cfg.Agree = true
	}
	par := runtime.NumCPU() / 2
	if par < 2 {
		par = 2
	}
	SolveAll(obls, cfg, par)
	solverSecs := 0.0
	bySolver := map[string]int{}
	for _, o := range obls {
		it := &checkItem{Name: o.Name, Kind: o.Kind, Text: o.Text, Status: o.Result.Status, Solver: o.Result.Solver, Secs: o.Result.Seconds,
			Query: o.Result.Query, Output: o.Result.Output, Cover: o.Cover, Func: o.Func}
		if o.Pos.IsValid() {
			it.Pos = fmt.Sprintf("%s:%d", shortFile(o.Pos.Filename), o.Pos.Line)
		}
		solverSecs += o.Result.Seconds
		if !o.Cover && o.Result.Status == "sat" && (o.Kind == "safety" || o.Kind == "ensures") {
			// a model: try to reproduce it on the real code
			it.Replay = TryReplay(o, o.Clause, *repo, workDir())
		}
		if o.Cover {
			it.Good = o.Result.Status != "unsat"
		} else {
			it.Good = o.Result.Status == "unsat"
			if it.Good {
				bySolver[o.Result.Solver]++
			}
		}
		items = append(items, it)
	}
	for _, it := range items {
		if it.Status == "ok" {
			it.Good = true
		}
	}
	sort.SliceStable(items, func(i, j int) bool { return items[i].Name < items[j].Name })

	// known findings
	kfs := readKnownFindings(filepath.Join(root, "known_findings.txt"))
	known := map[string]KnownFinding{}
	for _, k := range kfs {
		if k.Kind == "known" && k.Property == *prop {
			known[k.Obligation] = k
		}
	}
	// baseline: every listed obligation must still be generated
	type baselineT map[string][]string
	var baseline baselineT
	if bd, err := os.ReadFile(filepath.Join(root, "baseline", "obligations.json")); err == nil {
		json.Unmarshal(bd, &baseline)
	}
	have := map[string]bool{}
	for _, it := range items {
		have[it.Name] = true
	}
	for _, n := range baseline[*prop] {
		if !have[n] {
			items = append(items, &checkItem{Name: n, Kind: "missing", Text: "obligation listed in baseline/obligations.json is no longer generated (function, contract or loop gone)", Status: "missing"})
		}
	}

	exit := 0
	nObl, nDis, nKnown, nViol, nCover := 0, 0, 0, 0, 0
	replayDir := filepath.Join(root, "replays", *prop)
	if d := os.Getenv("GOVC_REPLAY_DIR"); d != "" {
		replayDir = filepath.Join(d, *prop)
	}
	var engineErr []string
	var samples []any
	for _, it := range items {
		if it.Cover {
			nCover++
			if !it.Good {
				engineErr = append(engineErr, "vacuity: "+it.Name+" is unsat (contradictory assumptions)")
			}
			continue
		}
		if it.Status == "disagree" {
			engineErr = append(engineErr, "solver disagreement on "+it.Name+": "+it.Output)
			continue
		}
		if _, isKnown := known[it.Name]; isKnown {
			if it.Good {
				// a listed finding that no longer fails: not an alarm; say so
				fmt.Printf("NOTE: known finding %s no longer fails\n", it.Name)
				nObl++
				nDis++
			} else {
				nKnown++
				fmt.Printf("KNOWN-FINDING: property=%s obligation=%s %s\n", *prop, it.Name, known[it.Name].Text)
			}
			continue
		}
		nObl++
		if it.Good {
			nDis++
			if len(samples) < 6 {
				samples = append(samples, map[string]any{"obligation": it.Name, "kind": it.Kind, "text": it.Text, "solver": it.Solver, "seconds": it.Secs, "at": it.Pos})
			}
			continue
		}
		nViol++
		exit = 1
		os.MkdirAll(replayDir, 0o755)
		h := sha1.Sum([]byte(it.Name))
		rp := filepath.Join(replayDir, fmt.Sprintf("%x.txt", h[:6]))
		var sb strings.Builder
		fmt.Fprintf(&sb, "property: %s\nfailed obligation: %s\nkind: %s\nat: %s\nwhat: %s\nsolver status: %s (%s, %.2fs)\n", *prop, it.Name, it.Kind, it.Pos, it.Text, it.Status, it.Solver, it.Secs)
		suffix := " no-failing-input-found"
		if it.Replay != nil && it.Replay.Reproduced {
			suffix = ""
			fmt.Fprintf(&sb, "failing input: %s\n--- in-package test generated from the solver's model (run with go test -overlay) ---\n%s\n--- its output on the real code ---\n%s\n", it.Replay.Note, it.Replay.TestSrc, it.Replay.Output)
		} else {
			fmt.Fprintf(&sb, "failing input: none found (the verifier gave no model that could be replayed)\n")
			if it.Replay != nil {
				fmt.Fprintf(&sb, "replay attempt: %s\n", it.Replay.Note)
				if it.Replay.TestSrc != "" {
					fmt.Fprintf(&sb, "--- generated test ---\n%s\n--- output ---\n%s\n", it.Replay.TestSrc, it.Replay.Output)
				}
			}
		}
		if it.Query != "" {
			dst := strings.TrimSuffix(rp, ".txt") + ".smt2"
			if qd, err := os.ReadFile(it.Query); err == nil {
				os.WriteFile(dst, qd, 0o644)
				fmt.Fprintf(&sb, "query: %s\n", dst)
			}
		}
		fmt.Fprintf(&sb, "solver output:\n%s\n", it.Output)
		fmt.Fprintf(&sb, "re-run: %s/bin/govc func -repo %s %s\n", root, *repo, it.Func)
		os.WriteFile(rp, []byte(sb.String()), 0o644)
		fmt.Printf("FAILED-OBLIGATION %s [%s] %s: %s\n", it.Name, it.Status, it.Pos, it.Text)
		if suffix == "" {
			fmt.Printf("REPLAYED %s: %s\n", it.Name, it.Replay.Note)
		}
		fmt.Printf("VIOLATION property=%s replay=%s%s\n", *prop, rp, suffix)
	}
	if *verbose {
		for _, it := range items {
			fmt.Printf("  %-8s %-70s %s %.2fs\n", it.Status, it.Name, it.Solver, it.Secs)
		}
	}
	// evidence
	var fnList []any
	for _, f := range sortedKeys(fnClass) {
		n, d := 0, 0
		for _, it := range items {
			if it.Func == f && !it.Cover {
				n++
				if it.Good {
					d++
				}
			}
		}
		fnList = append(fnList, map[string]any{"function": f, "class": fnClass[f], "obligations": n, "discharged": d})
	}
	var assumptions []string
	for _, a := range pc.Assumed {
		assumptions = append(assumptions, "assumed contract/fact: "+a)
	}
	for _, a := range sortedKeys(assumedSet) {
		if fnClass[a] == "P" {
			continue // proved in this very run
		}
		if strings.Contains(a, ": only obligations of kind") || strings.Contains(a, "are not claimed (not discharged within this function's contract)") {
			assumptions = append(assumptions, "partial claim: "+a)
			continue
		}
		if strings.Contains(a, ": explicit assume[") {
			assumptions = append(assumptions, "explicit assumption inside a contract (never proved): "+a)
			continue
		}
		assumptions = append(assumptions, "callee contract used without being part of this property's discharged set: "+a)
	}
	for _, a := range pc.Unverified {
		assumptions = append(assumptions, "unverified (no contract): "+a)
	}
	if pc.Sweep {
		reach := eff.Reachable(pr.Funcs["autog.Layout"])
		var rest []string
		for fi := range reach {
			if !seenFn[fi.Key] {
				rest = append(rest, fi.Key)
			}
		}
		sort.Strings(rest)
		assumptions = append(assumptions, fmt.Sprintf("unverified: %d of %d functions reachable from Layout are not in the claimed set (open safety obligations, or outside the translated subset): %s", len(rest), len(reach), strings.Join(rest, ", ")))
	}
	for _, a := range pc.Paper {
		assumptions = append(assumptions, "paper lemma / meta-argument: "+a)
	}
	for _, a := range sortedKeys(modelSet) {
		assumptions = append(assumptions, "stdlib model: "+a)
	}
	for _, t := range pr.Trusted {
		assumptions = append(assumptions, "trusted contract (scan): "+t)
	}
	assumptions = append(assumptions, standingAssumptions...)
	if nObl == 0 {
		engineErr = append(engineErr, "no obligations generated for "+*prop)
	}
	ev := Evidence{PropertyID: *prop, Tier: *tier, Seed: seed, Level: "proof", Assumptions: assumptions, WallS: time.Since(t0).Seconds(), Violations: nViol}
	ev.Coverage = map[string]any{
		"obligations":              nObl,
		"discharged":               nDis,
		"checker_cmd":              fmt.Sprintf("%s/bin/govc check -property %s -tier %s (z3 4.8.12 and z3 5.1.0, each with auto_config=false smt.mbqi=false and with defaults, cvc5 1.0.3; first unsat wins%s)", root, *prop, *tier, map[bool]string{true: "; all solvers must agree", false: ""}[cfg.Agree]),
		"trusted_base":             append([]string{"govc translator and memory model (A3)", "go/types (A4)", "z3 / cvc5 answers"}, pc.Paper...),
		"functions_under_contract": fnList,
		"discharged_by_solver":     bySolver,
		"solver_seconds":           solverSecs,
		"cover_checks":             nCover,
		"known_findings_reported":  nKnown,
		"bounded":                  pc.Bounded,
		"samples":                  samples,
		"modes":                    pc.Modes,
		"timeout_s":                cfg.Timeout.Seconds(),
	}
	if len(samples) == 0 {
		ev.Coverage["samples"] = []any{"(no obligation discharged on this run)"}
	}
	{
		// the slowest discharged obligations: the ones closest to the timeout, i.e. the candidates for instability
		var sl []*checkItem
		for _, it := range items {
			if !it.Cover && it.Good && it.Secs > 2 {
				sl = append(sl, it)
			}
		}
		sort.SliceStable(sl, func(i, j int) bool { return sl[i].Secs > sl[j].Secs })
		if len(sl) > 10 {
			sl = sl[:10]
		}
		out := []string{}
		for _, it := range sl {
			out = append(out, fmt.Sprintf("%s %.1fs (%s)", it.Name, it.Secs, it.Solver))
		}
		ev.Coverage["slowest_discharged"] = out
	}
	byKind := map[string]int{}
	var names []string
	for _, it := range items {
		if it.Cover {
			continue
		}
		k := it.Kind
		if i := strings.Index(k, "."); i > 0 {
			k = k[:i]
		}
		byKind[k]++
		names = append(names, it.Name+" ["+it.Status+"]")
	}
	ev.Coverage["obligations_by_kind"] = byKind
	ev.Coverage["obligation_list"] = names
	if *tier == "thorough" && exit == 0 && os.Getenv("GOVC_NO_MUTANTS") == "" {
		// thorough tier: the must-fail corpus of this property is run as well (each mutant on a scratch copy of the
		// working tree under the system temp directory, removed afterwards): a check that can no longer tell these
		// changes from the unchanged tree has lost its power. Recorded in the evidence; never part of the verdict.
		files, _ := filepath.Glob(filepath.Join(root, "selftest", "mutants", "*.json"))
		sort.Strings(files)
		exe, _ := os.Executable()
		var mres []any
		killed, total := 0, 0
		for _, f := range files {
			var m Mutant
			d, err := os.ReadFile(f)
			if err != nil || json.Unmarshal(d, &m) != nil || m.Property != *prop {
				continue
			}
			total++
			os.Setenv("GOVC_NO_MUTANTS", "1")
			r := runMutant(exe, root, *repo, m)
			os.Unsetenv("GOVC_NO_MUTANTS")
			if strings.HasPrefix(r, "killed") {
				killed++
			} else {
				fmt.Printf("WARNING: must-fail mutant not detected as expected: %s\n", r)
			}
			mres = append(mres, map[string]any{"mutant": m.Name, "expected_obligation": m.Expect, "result": strings.Fields(r)[0]})
		}
		ev.Coverage["must_fail_mutants"] = mres
		ev.Coverage["must_fail_mutants_killed"] = fmt.Sprintf("%d of %d", killed, total)
		ev.WallS = time.Since(t0).Seconds()
	}
	os.MkdirAll(*evdir, 0o755)
	ed, _ := json.MarshalIndent(ev, "", " ")
	os.WriteFile(filepath.Join(*evdir, *prop+".json"), ed, 0o644)
	fmt.Printf("%s: %d obligations, %d discharged, %d known findings, %d violations, %d cover checks, %.1fs\n", *prop, nObl, nDis, nKnown, nViol, nCover, time.Since(t0).Seconds())
	if len(engineErr) > 0 {
		for _, e := range engineErr {
			fmt.Fprintln(os.Stderr, "ENGINE-ERROR:", e)
		}
		if exit == 0 {
			return 2
		}
	}
	return exit
}

var standingAssumptions = []string{
	"A1 floats are modelled as mathematical reals (no rounding, NaN, Inf, -0)",
	"A2 int is a mathematical integer outside bv64-mode functions",
	"A3 the govc translator (Go -> VC) and its memory model are correct; solver answers are trusted",
	"A4 go/types resolves what the compiler resolves",
}


// exceptMatch: an exclusion names an obligation by its description, not its ordinal, so that it survives unrelated edits.
// The text must be equal; a leading / trailing '*' turns the comparison into suffix / prefix / substring matching.
func exceptMatch(text, pat string) bool {
	pre, suf := strings.HasPrefix(pat, "*"), strings.HasSuffix(pat, "*")
	core := strings.TrimSuffix(strings.TrimPrefix(pat, "*"), "*")
	switch {
	case pre && suf:
		return strings.Contains(text, core)
	case suf:
		return strings.HasPrefix(text, core)
	case pre:
		return strings.HasSuffix(text, core)
	}
	return text == core
}
