package main

// Extra analyses built on the translator: inventories (globals, concurrency, sources of nondeterminism),
// monitor frame, commutativity of map-range bodies.

import (
	"fmt"
	"go/ast"
	"go/token"
	"go/types"
	"sort"
	"strings"
)

func okItem(name, kind, text string) *checkItem {
	return &checkItem{Name: name, Kind: kind, Text: text, Status: "ok", Good: true}
}

func failItem(name, kind, text, pos string) *checkItem {
	return &checkItem{Name: name, Kind: kind, Text: text, Status: "fail", Pos: pos}
}

type modeCtx struct {
	pr   *Prog
	eff  *Effects
	pc   *PropCfg
	prop string
	obls []*Obligation // obligations to be solved by the caller
}

func (mc *modeCtx) pos(p token.Pos) string {
	q := mc.pr.Fset.Position(p)
	return fmt.Sprintf("%s:%d", shortFile(q.Filename), q.Line)
}

func (mc *modeCtx) layoutReach() (map[*FuncInfo]bool, *checkItem) {
	root, ok := mc.pr.Funcs["autog.Layout"]
	if !ok {
		return nil, failItem("inventory/root", "inventory", "autog.Layout not found", "")
	}
	return mc.eff.Reachable(root), nil
}

func runModeCtx(m string, mc *modeCtx) []*checkItem {
	switch m {
	case "globals.inventory":
		return modeGlobals(mc)
	case "concurrency.inventory":
		return modeConcurrency(mc)
	case "nondet.inventory":
		return modeNondet(mc)
	case "globals.shared":
		return modeGlobalsShared(mc)
	case "opaque.ids":
		return modeOpaqueIDs(mc)
	case "sizes.unread":
		return modeSizesUnread(mc)
	case "monitor.frame":
		return modeMonitorFrame(mc)
	case "args.frame":
		return modeArgsFrame(mc)
	case "field.writers":
		return modeFieldWriters(mc)
	}
	return []*checkItem{{Name: "mode/" + m, Kind: "mode", Text: "unknown mode", Status: "error"}}
}

// ---------------------------------------------------------------------------
// package-level variables and every write to them

func modeGlobals(mc *modeCtx) []*checkItem {
	var items []*checkItem
	var globals []string
	for _, p := range mc.pr.Pkgs {
		sc := p.Types.Scope()
		for _, n := range sc.Names() {
			if v, ok := sc.Lookup(n).(*types.Var); ok {
				fn := mc.pr.Fset.Position(v.Pos()).Filename
				if strings.HasSuffix(fn, "_test.go") {
					continue
				}
				globals = append(globals, "G$"+pkgShort(p.PkgPath)+"."+v.Name())
			}
		}
	}
	sort.Strings(globals)
	items = append(items, okItem("globals/inventory", "inventory", "package-level variables of the module: "+strings.Join(globals, ", ")))
	if len(mc.pc.AllowedGlobals) > 0 {
		al := map[string]bool{}
		for _, g := range mc.pc.AllowedGlobals {
			al[g] = true
		}
		for _, g := range globals {
			if !al[g] {
				items = append(items, failItem("globals/unlisted/"+g, "inventory", "package-level variable "+g+" is not on the reviewed list: shared mutable state may have been introduced", ""))
			}
		}
	}
	allowed := mc.pc.AllowedGlobalWriters
	for _, k := range mc.pr.FuncKeys {
		fi := mc.pr.Funcs[k]
		e := mc.eff.Of(fi)
		for g := range e.directGlobalWrites {
			ok := false
			for _, w := range allowed[g] {
				if w == k {
					ok = true
				}
			}
			name := "globals/write/" + g + "/" + k
			if ok {
				items = append(items, okItem(name, "inventory", "write to "+g+" in "+k+" is covered by that function's guard contract"))
			} else {
				items = append(items, failItem(name, "inventory", "write to package-level variable "+g+" in "+k+" has no guard contract (not in allowed_global_writers)", mc.pos(fi.Decl.Pos())))
			}
		}
		// address-of a package-level variable
		ast.Inspect(fi.Decl.Body, func(n ast.Node) bool {
			if ue, ok := n.(*ast.UnaryExpr); ok && ue.Op == token.AND {
				var id *ast.Ident
				switch t := ast.Unparen(ue.X).(type) {
				case *ast.Ident:
					id = t
				case *ast.SelectorExpr:
					if _, isSel := fi.Pkg.TypesInfo.Selections[t]; !isSel {
						id = t.Sel
					}
				}
				if id != nil {
					if v, ok := fi.Pkg.TypesInfo.ObjectOf(id).(*types.Var); ok && v.Pkg() != nil && v.Parent() == v.Pkg().Scope() {
						items = append(items, failItem("globals/addr/"+k+"/"+v.Name(), "inventory", "address of package-level variable "+v.Name()+" taken in "+k, mc.pos(ue.Pos())))
					}
				}
			}
			return true
		})
	}
	// every allowed writer must still exist (its contract carries the guard)
	for g, ws := range allowed {
		for _, w := range ws {
			if fi, ok := mc.pr.Funcs[w]; !ok || fi.Spec == nil {
				items = append(items, failItem("globals/writer/"+g+"/"+w, "inventory", "allowed writer "+w+" has no contract any more", ""))
			}
		}
	}
	return items
}

// ---------------------------------------------------------------------------
// goroutines, channels, sync on the call graph of Layout

func modeConcurrency(mc *modeCtx) []*checkItem {
	root, ok := mc.pr.Funcs["autog.Layout"]
	if !ok {
		return []*checkItem{failItem("inventory/root", "inventory", "autog.Layout not found", "")}
	}
	// premise of the property: no monitor supplied, so monitor.Log never dispatches to a Monitor implementation
	reach := mc.eff.Reachable(root, "Monitor")
	var items []*checkItem
	n := 0
	var keys []string
	for fi := range reach {
		keys = append(keys, fi.Key)
	}
	sort.Strings(keys)
	for _, k := range keys {
		fi := mc.pr.Funcs[k]
		n++
		ast.Inspect(fi.Decl.Body, func(nd ast.Node) bool {
			switch s := nd.(type) {
			case *ast.GoStmt:
				items = append(items, failItem("concurrency/go/"+k, "inventory", "go statement reachable from Layout in "+k, mc.pos(s.Pos())))
			case *ast.SendStmt:
				items = append(items, failItem("concurrency/send/"+k, "inventory", "channel send reachable from Layout in "+k, mc.pos(s.Pos())))
			case *ast.SelectStmt:
				items = append(items, failItem("concurrency/select/"+k, "inventory", "select reachable from Layout in "+k, mc.pos(s.Pos())))
			case *ast.UnaryExpr:
				if s.Op == token.ARROW {
					items = append(items, failItem("concurrency/recv/"+k, "inventory", "channel receive reachable from Layout in "+k, mc.pos(s.Pos())))
				}
			}
			return true
		})
		for c := range mc.eff.Of(fi).extCalls {
			if strings.HasPrefix(c, "sync.") || strings.HasPrefix(c, "sync/atomic.") {
				items = append(items, failItem("concurrency/sync/"+k, "inventory", "call of "+c+" reachable from Layout in "+k, mc.pos(fi.Decl.Pos())))
			}
		}
	}
	items = append(items, okItem("concurrency/inventory", "inventory", fmt.Sprintf("%d functions reachable from Layout scanned for go/channel/select/sync", n)))
	return items
}

// ---------------------------------------------------------------------------
// sources of unspecified behaviour reachable from Layout

func modeNondet(mc *modeCtx) []*checkItem {
	reach, bad := mc.layoutReach()
	if bad != nil {
		return []*checkItem{bad}
	}
	var items []*checkItem
	var keys []string
	for fi := range reach {
		keys = append(keys, fi.Key)
	}
	sort.Strings(keys)
	nRanges := 0
	for _, k := range keys {
		fi := mc.pr.Funcs[k]
		info := fi.Pkg.TypesInfo
		occ := map[string]int{}
		ast.Inspect(fi.Decl.Body, func(nd ast.Node) bool {
			switch s := nd.(type) {
			case *ast.RangeStmt:
				if _, isMap := types.Unalias(info.TypeOf(s.X)).Underlying().(*types.Map); isMap {
					nRanges++
					hdr := "range(" + strings.ReplaceAll(nodeText(mc.pr.Fset, s.X), " ", "") + ")"
					occ[hdr]++
					key := fmt.Sprintf("%s#%d", hdr, occ[hdr])
					items = append(items, commuteCheck(mc, fi, s, key)...)
				}
			case *ast.CallExpr:
				if tv, ok := info.Types[s.Fun]; ok && tv.IsType() {
					if b, ok := tv.Type.Underlying().(*types.Basic); ok && (b.Kind() == types.Uintptr || b.Kind() == types.UnsafePointer) {
						items = append(items, failItem("nondet/ptrconv/"+k, "inventory", "pointer/uintptr conversion in "+k, mc.pos(s.Pos())))
					}
				}
			}
			return true
		})
		for c := range mc.eff.Of(fi).extCalls {
			switch {
			case strings.HasPrefix(c, "time."), strings.HasPrefix(c, "math/rand"), strings.HasPrefix(c, "crypto/rand"), strings.HasPrefix(c, "os."), strings.HasPrefix(c, "runtime."),
				c == "maps.Keys", c == "maps.Values", c == "maps.All", strings.HasPrefix(c, "unsafe."), strings.HasPrefix(c, "reflect."):
				allowed := false
				for _, a := range mc.pc.AllowedNondet[c] {
					if a == k {
						allowed = true
					}
				}
				name := "nondet/call/" + c + "/" + k
				if allowed {
					items = append(items, okItem(name, "inventory", "call of "+c+" in "+k+" is covered by a contract (guarded by the documented non-deterministic option)"))
				} else {
					items = append(items, failItem(name, "inventory", "call of "+c+" reachable from Layout in "+k+" is a source of run-to-run variation without a covering contract", mc.pos(fi.Decl.Pos())))
				}
			}
		}
	}
	items = append(items, okItem("nondet/inventory", "inventory", fmt.Sprintf("%d functions reachable from Layout scanned; %d map ranges", len(keys), nRanges)))
	return items
}

// commuteCheck: for a range over a map, body(k1);body(k2) and body(k2);body(k1) must agree on everything the body can write.
func commuteCheck(mc *modeCtx, fi *FuncInfo, s *ast.RangeStmt, key string) (items []*checkItem) {
	name := "commute/" + fi.Key + "/" + key
	x := newXlat(mc.pr, mc.eff)
	x.fi = fi
	x.curFunc = name
	x.noSafety = true
	defer func() {
		if r := recover(); r != nil {
			msg := fmt.Sprint(r)
			if u, ok := r.(unsupported); ok {
				msg = u.msg
			}
			if se, ok := r.(specError); ok {
				msg = se.msg
			}
			items = []*checkItem{failItem(name, "commute", "map range body cannot be analysed for order independence: "+msg, mc.pos(s.Pos()))}
		}
	}()
	info := fi.Pkg.TypesInfo
	// abrupt exits make the result depend on the order
	abrupt := false
	ast.Inspect(s.Body, func(n ast.Node) bool {
		switch b := n.(type) {
		case *ast.ReturnStmt:
			abrupt = true
		case *ast.BranchStmt:
			if b.Tok == token.BREAK || b.Tok == token.GOTO {
				abrupt = true
			}
		case *ast.FuncLit:
			return false
		}
		return true
	})
	if abrupt {
		return []*checkItem{failItem(name, "commute", "map range body leaves the loop early (break/return): result depends on iteration order", mc.pos(s.Pos()))}
	}
	fr := x.newFrame(fi, nil, nil, nil)
	fr.top = true
	st := NewState()
	// all variables in scope at the loop get arbitrary values
	for _, p := range x.paramVars(fi) {
		if p == nil || p.Name() == "_" {
			continue
		}
		if isRefParamType(p.Type()) {
			et := derefType(p.Type())
			k := "deref$" + p.Name()
			st.env[k] = x.freshTyped(st, k, et)
			fr.refParams[p] = PVar{k, et}
			continue
		}
		x.declVar(st, fr, p, x.freshTyped(st, "p$"+p.Name(), p.Type()))
	}
	scope := info.Scopes[fi.Decl.Type]
	var declLocals func(sc *types.Scope)
	declLocals = func(sc *types.Scope) {
		for _, n := range sc.Names() {
			if v, ok := sc.Lookup(n).(*types.Var); ok && v.Pos() < s.Pos() {
				if _, _, have := fr.lookupVar(v); !have {
					if _, isFn := types.Unalias(v.Type()).Underlying().(*types.Signature); isFn {
						continue
					}
					x.declVar(st, fr, v, x.freshTyped(st, "l$"+v.Name(), v.Type()))
				}
			}
		}
		for i := 0; i < sc.NumChildren(); i++ {
			c := sc.Child(i)
			if c.Pos() <= s.Pos() && s.End() <= c.End() {
				declLocals(c)
			}
		}
	}
	if scope != nil {
		declLocals(scope)
	}
	// closures bound to locals before the loop
	ast.Inspect(fi.Decl.Body, func(n ast.Node) bool {
		if as, ok := n.(*ast.AssignStmt); ok && as.Pos() < s.Pos() && len(as.Lhs) == 1 && len(as.Rhs) == 1 {
			if fl, ok := as.Rhs[0].(*ast.FuncLit); ok {
				if id, ok := as.Lhs[0].(*ast.Ident); ok {
					if v, ok := info.ObjectOf(id).(*types.Var); ok {
						fr.closures[v] = &Closure{lit: fl, frame: fr, pkg: fi.Pkg}
					}
				}
			}
		}
		return true
	})
	out := &Outcomes{}
	mt := types.Unalias(info.TypeOf(s.X)).Underlying().(*types.Map)
	m := x.eval(st, fr, out, s.X)
	// the loop's own invariants (proved with the function) describe the states in which the body runs
	if ls, _ := x.loopSpecFor(fr, s); ls != nil {
		env := x.newSpecEnvFrame(st, fr, s.Pos())
		env.old = st
		env.loopOld = st
		for _, inv := range ls.Invs {
			if inv.inView(mc.prop) {
				st.assume(env.evalBool(inv.Expr))
			}
		}
	}
	ks := x.tm.SortOf(mt.Key())
	k1, k2 := x.ctx.Fresh("k1", ks), x.ctx.Fresh("k2", ks)
	domH := x.get(st, mapDomKey(ks, x.tm.SortOf(mt.Elem())), ArrSort(SRef, ArrSort(ks, SBool)))
	st.guard(Not(Eq(m, TNull)))
	st.guard(And(Sel(Sel(domH, m), k1), Sel(Sel(domH, m), k2), Not(Eq(k1, k2))))
	runBody := func(st *State, k *Term) *State {
		bind := func(e ast.Expr, v *Term) {
			if e == nil {
				return
			}
			id, ok := e.(*ast.Ident)
			if ok && id.Name == "_" {
				return
			}
			if ok && s.Tok == token.DEFINE {
				if d, ok := info.Defs[id].(*types.Var); ok {
					x.declVar(st, fr, d, x.coerce(v, d.Type()))
					return
				}
			}
			x.store(st, out, x.place(st, fr, out, e), v, e.Pos())
		}
		bind(s.Key, k)
		if s.Value != nil {
			bind(s.Value, x.load(st, PMapElem{m, k, mt.Key(), mt.Elem()}))
		}
		o := x.execBlock(st, fr, s.Body.List)
		return x.merge(o.normal, o.cont[""])
	}
	a := runBody(runBody(st.clone(), k1), k2)
	b := runBody(runBody(st.clone(), k2), k1)
	if a == nil || b == nil {
		return []*checkItem{failItem(name, "commute", "map range body never completes normally", mc.pos(s.Pos()))}
	}
	ef := mc.eff.OfNode(fi.Pkg, fi, s.Body)
	var cmpKeys []string
	for k := range ef.regions {
		cmpKeys = append(cmpKeys, k)
	}
	for _, v := range sortedVars(ef.assigned) {
		if k, _, ok := fr.lookupVar(v); ok && v.Pos() < s.Pos() {
			cmpKeys = append(cmpKeys, k)
		}
	}
	for _, v := range sortedVars(ef.refVars) {
		if p, ok := fr.lookupRefParam(v); ok {
			if pv, ok := p.(PVar); ok {
				cmpKeys = append(cmpKeys, pv.key)
			}
		}
	}
	sort.Strings(cmpKeys)
	hyps := append(a.hyps(), b.hyps()...)
	stc := &State{facts: hyps, env: map[string]*Term{}}
	// vacuity guard: both executions together must be feasible
	cov := x.emit(stc, name+"/cover", "cover", TFalse, s.Pos(), "both orders of the two iterations are feasible (must NOT be unsat)")
	cov.Cover = true
	mc.obls = append(mc.obls, cov)
	n := 0
	for _, k := range cmpKeys {
		if k == allocKey || k == arrAllocKey {
			continue // allocation order is not observable
		}
		va, oka := a.env[k]
		vb, okb := b.env[k]
		if !oka && !okb {
			continue
		}
		if !oka {
			va = x.initial(k, vb.Sort)
		}
		if !okb {
			vb = x.initial(k, va.Sort)
		}
		n++
		o := x.emit(stc, name+"/"+k, "commute", Eq(va, vb), s.Pos(), "body(k1);body(k2) and body(k2);body(k1) agree on "+k)
		mc.obls = append(mc.obls, o)
	}
	if n == 0 {
		return []*checkItem{okItem(name, "commute", "map range body writes nothing observable")}
	}
	return nil
}

// ---------------------------------------------------------------------------
// monitor state: only the four monitor functions touch it, they return nothing and write nothing else

func modeMonitorFrame(mc *modeCtx) []*checkItem {
	var items []*checkItem
	for _, k := range mc.pr.FuncKeys {
		fi := mc.pr.Funcs[k]
		e := mc.eff.OfNode(fi.Pkg, fi, fi.Decl.Body)
		touches := false
		for g := range e.globalsRead {
			if strings.HasPrefix(g, "G$monitor.") {
				touches = true
			}
		}
		for g := range mc.eff.Of(fi).directGlobalWrites {
			if strings.HasPrefix(g, "G$monitor.") {
				touches = true
			}
		}
		directTouch := false
		ast.Inspect(fi.Decl.Body, func(n ast.Node) bool {
			if id, ok := n.(*ast.Ident); ok {
				if v, ok := fi.Pkg.TypesInfo.ObjectOf(id).(*types.Var); ok && v.Pkg() != nil && v.Parent() == v.Pkg().Scope() && pkgShort(v.Pkg().Path()) == "monitor" {
					directTouch = true
				}
			}
			return true
		})
		_ = touches
		if !directTouch {
			continue
		}
		sig := fi.Obj.Type().(*types.Signature)
		name := "monitor.frame/" + k
		if sig.Results().Len() != 0 {
			items = append(items, failItem(name+"/results", "frame", k+" reads the monitor globals and returns a value: monitor state could flow into the layout", mc.pos(fi.Decl.Pos())))
			continue
		}
		bad := []string{}
		for r := range mc.eff.Of(fi).regions {
			if !strings.HasPrefix(r, "G$monitor.") {
				bad = append(bad, r)
			}
		}
		sort.Strings(bad)
		if len(bad) > 0 {
			items = append(items, failItem(name+"/writes", "frame", k+" reads the monitor globals and may write "+strings.Join(bad, ", ")+": monitor state could flow into the layout", mc.pos(fi.Decl.Pos())))
			continue
		}
		items = append(items, okItem(name, "frame", k+" touches the monitor globals, returns nothing and writes only monitor globals"))
	}
	if len(items) == 0 {
		items = append(items, failItem("monitor.frame/none", "frame", "no function touches the monitor globals: inventory is empty (renamed?)", ""))
	}
	return items
}

// ---------------------------------------------------------------------------
// the caller's arguments are only read: no write region of Layout's call graph has the element type of the
// caller-owned data ([]string / [][]string elements, map[string]Size)

func modeArgsFrame(mc *modeCtx) []*checkItem {
	reach, bad := mc.layoutReach()
	if bad != nil {
		return []*checkItem{bad}
	}
	// Go types of the caller-owned data: []string (an edge), [][]string / EdgeSlice (the edge list), map[string]Size
	callerOwned := func(t types.Type) string {
		switch u := types.Unalias(t).Underlying().(type) {
		case *types.Slice:
			if isString(u.Elem()) {
				return "[]string"
			}
			if in, ok := types.Unalias(u.Elem()).Underlying().(*types.Slice); ok && isString(in.Elem()) {
				return "[][]string"
			}
		case *types.Map:
			if isString(u.Key()) {
				if st, ok := types.Unalias(u.Elem()).Underlying().(*types.Struct); ok && st.NumFields() == 4 {
					return "map[string]Size"
				}
			}
		}
		return ""
	}
	var items []*checkItem
	n := 0
	var keys []string
	for fi := range reach {
		keys = append(keys, fi.Key)
	}
	sort.Strings(keys)
	for _, k := range keys {
		fi := mc.pr.Funcs[k]
		info := fi.Pkg.TypesInfo
		n++
		flag := func(pos token.Pos, what, ty string) {
			items = append(items, failItem(fmt.Sprintf("args.frame/%s/%s", k, mc.pos(pos)), "frame", what+" a "+ty+" in "+k+": the caller's edge list / size map has that type and must only be read", mc.pos(pos)))
		}
		ast.Inspect(fi.Decl.Body, func(nd ast.Node) bool {
			switch s := nd.(type) {
			case *ast.AssignStmt:
				for _, l := range s.Lhs {
					if ix, ok := ast.Unparen(l).(*ast.IndexExpr); ok {
						if ty := callerOwned(info.TypeOf(ix.X)); ty != "" {
							flag(l.Pos(), "element assignment into", ty)
						}
					}
				}
			case *ast.IncDecStmt:
				if ix, ok := ast.Unparen(s.X).(*ast.IndexExpr); ok {
					if ty := callerOwned(info.TypeOf(ix.X)); ty != "" {
						flag(s.Pos(), "element update of", ty)
					}
				}
			case *ast.CallExpr:
				fun := ast.Unparen(s.Fun)
				if id, ok := fun.(*ast.Ident); ok {
					if b, ok := info.Uses[id].(*types.Builtin); ok && len(s.Args) > 0 {
						switch b.Name() {
						case "append", "copy", "delete", "clear":
							if ty := callerOwned(info.TypeOf(s.Args[0])); ty != "" {
								flag(s.Pos(), b.Name()+" on", ty)
							}
						}
					}
				}
				if se, ok := fun.(*ast.SelectorExpr); ok {
					if fn, ok := info.Uses[se.Sel].(*types.Func); ok && fn.Pkg() != nil && len(s.Args) > 0 {
						switch fn.Pkg().Path() + "." + fn.Name() {
						case "sort.Slice", "sort.SliceStable", "sort.Strings", "slices.Reverse", "slices.Sort", "maps.Copy", "maps.DeleteFunc":
							if ty := callerOwned(info.TypeOf(s.Args[0])); ty != "" {
								flag(s.Pos(), fn.Name()+" on", ty)
							}
						}
					}
				}
			}
			return true
		})
	}
	if len(items) == 0 {
		items = append(items, okItem("args.frame/layout", "frame", fmt.Sprintf("%d functions reachable from Layout: no element assignment, append, copy, sort, delete or clear on a []string, [][]string or map[string]Size", n)))
	}
	return items
}

// ---------------------------------------------------------------------------
// no mutable memory is reachable from the initial value of a package-level variable: a map, slice, pointer, channel,
// function value or interface stored there would be shared by all calls (state surviving from call to call, and
// sharing between concurrent calls) even when the variable itself is only read and copied.

func hasRefKind(t types.Type, seen map[types.Type]bool) bool {
	t = types.Unalias(t)
	if seen[t] {
		return false
	}
	seen[t] = true
	switch u := t.Underlying().(type) {
	case *types.Map, *types.Slice, *types.Pointer, *types.Chan, *types.Signature, *types.Interface:
		return true
	case *types.Struct:
		for i := 0; i < u.NumFields(); i++ {
			if hasRefKind(u.Field(i).Type(), seen) {
				return true
			}
		}
	case *types.Array:
		return hasRefKind(u.Elem(), seen)
	}
	return false
}

// refFreeInit reports a reason when the initializer expression may put a non-nil reference into the value.
func refFreeInit(info *types.Info, e ast.Expr, t types.Type) string {
	if !hasRefKind(t, map[types.Type]bool{}) {
		return ""
	}
	e = ast.Unparen(e)
	if id, ok := e.(*ast.Ident); ok {
		if id.Name == "nil" {
			return ""
		}
		// another package-level variable: its own initializer is checked separately (value copy shares what it references)
		if v, ok := info.ObjectOf(id).(*types.Var); ok && v.Pkg() != nil && v.Parent() == v.Pkg().Scope() {
			return ""
		}
	}
	cl, ok := e.(*ast.CompositeLit)
	if !ok {
		return "initializer " + types.ExprString(e) + " is not a literal whose reference-typed parts can be seen to be nil"
	}
	switch u := types.Unalias(t).Underlying().(type) {
	case *types.Struct:
		for i, el := range cl.Elts {
			var f *types.Var
			val := el
			if kv, ok := el.(*ast.KeyValueExpr); ok {
				val = kv.Value
				if id, ok := kv.Key.(*ast.Ident); ok {
					for j := 0; j < u.NumFields(); j++ {
						if u.Field(j).Name() == id.Name {
							f = u.Field(j)
						}
					}
				}
			} else if i < u.NumFields() {
				f = u.Field(i)
			}
			if f == nil {
				return "unrecognised field in initializer"
			}
			if r := refFreeInit(info, val, f.Type()); r != "" {
				return "field " + f.Name() + ": " + r
			}
		}
		return ""
	case *types.Array:
		for _, el := range cl.Elts {
			if kv, ok := el.(*ast.KeyValueExpr); ok {
				el = kv.Value
			}
			if r := refFreeInit(info, el, u.Elem()); r != "" {
				return r
			}
		}
		return ""
	}
	return "initializer " + types.ExprString(e) + " creates a " + t.String() + " that every call would share"
}

func modeGlobalsShared(mc *modeCtx) []*checkItem {
	var items []*checkItem
	n := 0
	for _, p := range mc.pr.Pkgs {
		info := p.TypesInfo
		for _, f := range p.Syntax {
			if strings.HasSuffix(mc.pr.Fset.Position(f.Pos()).Filename, "_test.go") {
				continue
			}
			for _, d := range f.Decls {
				gd, ok := d.(*ast.GenDecl)
				if !ok || gd.Tok != token.VAR {
					continue
				}
				for _, sp := range gd.Specs {
					vs := sp.(*ast.ValueSpec)
					for i, nm := range vs.Names {
						v, ok := info.Defs[nm].(*types.Var)
						if !ok || nm.Name == "_" {
							continue
						}
						n++
						name := "globals/shared/G$" + pkgShort(p.PkgPath) + "." + nm.Name
						if i >= len(vs.Values) {
							continue // zero value: every reference is nil
						}
						if r := refFreeInit(info, vs.Values[i], v.Type()); r != "" {
							items = append(items, failItem(name, "inventory", "package-level variable "+nm.Name+" may hold shared mutable memory: "+r, mc.pos(nm.Pos())))
						}
					}
				}
			}
		}
	}
	if len(items) == 0 {
		items = append(items, okItem("globals/shared", "inventory", fmt.Sprintf("%d package-level variables: no map, slice, pointer, channel, function or interface value is reachable from any initial value", n)))
	}
	return items
}

// ---------------------------------------------------------------------------
// node identifiers are opaque: a value derived from a node ID may only be copied, compared for equality, used as a
// map key at a reviewed site, or concatenated into debug/monitor text. Anything else (ordering, length, indexing,
// conversion, parsing, hashing by hand) would make the layout depend on what the names look like.

func modeOpaqueIDs(mc *modeCtx) []*checkItem {
	var items []*checkItem
	nSites := 0
	isIDField := func(info *types.Info, se *ast.SelectorExpr) bool {
		sel, ok := info.Selections[se]
		if !ok || sel.Kind() != types.FieldVal {
			return false
		}
		f, ok := sel.Obj().(*types.Var)
		if !ok || !isString(f.Type()) {
			return false
		}
		switch f.Name() {
		case "ID", "FromID", "ToID":
			return f.Pkg() != nil && strings.HasPrefix(f.Pkg().Path(), modPath)
		}
		return false
	}
	for _, k := range mc.pr.FuncKeys {
		fi := mc.pr.Funcs[k]
		info := fi.Pkg.TypesInfo
		debugFn := fi.Obj.Name() == "String" || fi.Obj.Name() == "SVG"
		// tainted locals: assigned from an ID-derived expression (fixpoint)
		tainted := map[*types.Var]bool{}
		var isTainted func(e ast.Expr) bool
		isTainted = func(e ast.Expr) bool {
			switch t := ast.Unparen(e).(type) {
			case *ast.SelectorExpr:
				return isIDField(info, t)
			case *ast.Ident:
				if v, ok := info.ObjectOf(t).(*types.Var); ok {
					return tainted[v]
				}
			case *ast.IndexExpr:
				// element of the caller's edge ([]string) in Populate: an identifier
				if sl, ok := types.Unalias(info.TypeOf(t.X)).Underlying().(*types.Slice); ok && isString(sl.Elem()) && k == "pubgraph.EdgeSlice.Populate" {
					return true
				}
			case *ast.BinaryExpr:
				if t.Op == token.ADD && isString(info.TypeOf(t)) {
					return isTainted(t.X) || isTainted(t.Y)
				}
			}
			return false
		}
		for changed := true; changed; {
			changed = false
			ast.Inspect(fi.Decl.Body, func(n ast.Node) bool {
				if as, ok := n.(*ast.AssignStmt); ok && len(as.Lhs) == len(as.Rhs) {
					for i, l := range as.Lhs {
						if id, ok := l.(*ast.Ident); ok && isTainted(as.Rhs[i]) {
							if v, ok := info.ObjectOf(id).(*types.Var); ok && !tainted[v] {
								tainted[v] = true
								changed = true
							}
						}
					}
				}
				return true
			})
		}
		// classify every use
		var stack []ast.Node
		ast.Inspect(fi.Decl.Body, func(n ast.Node) bool {
			if n == nil {
				stack = stack[:len(stack)-1]
				return true
			}
			stack = append(stack, n)
			e, ok := n.(ast.Expr)
			if !ok || !isTainted(e) {
				return true
			}
			// only maximal tainted expressions are classified
			if len(stack) >= 2 {
				if pe, ok := stack[len(stack)-2].(ast.Expr); ok && isTainted(pe) {
					return true
				}
				if _, ok := stack[len(stack)-2].(*ast.ParenExpr); ok {
					return true
				}
			}
			nSites++
			parent := stack[len(stack)-2]
			pos := mc.pos(e.Pos())
			what := nodeText(mc.pr.Fset, e)
			okUse := false
			why := ""
			switch p := parent.(type) {
			case *ast.KeyValueExpr:
				okUse = p.Value == e // struct literal field value (copy)
			case *ast.AssignStmt:
				for _, r := range p.Rhs {
					if r == e {
						okUse = true // copy
					}
				}
				for _, l := range p.Lhs {
					if l == e {
						okUse = true // assignment to an ID field
					}
				}
			case *ast.ValueSpec:
				okUse = true
			case *ast.BinaryExpr:
				okUse = p.Op == token.EQL || p.Op == token.NEQ
				why = "operator " + p.Op.String()
			case *ast.IndexExpr:
				if p.Index == e {
					if _, isMap := types.Unalias(info.TypeOf(p.X)).Underlying().(*types.Map); isMap {
						site := k + ":" + nodeText(mc.pr.Fset, p.X)
						for _, a := range mc.pc.AllowedIDMapKeys {
							if a == site {
								okUse = true
							}
						}
						why = "map key use at unreviewed site " + site
					}
				}
			case *ast.CallExpr:
				// argument of a call: monitor logging and debug text only
				fn := nodeText(mc.pr.Fset, p.Fun)
				if strings.HasSuffix(fn, "imonitor.Log") || strings.HasSuffix(fn, "monitor.Log") || debugFn {
					okUse = true
				}
				why = "argument of " + fn
			case *ast.ReturnStmt:
				okUse = debugFn
				why = "returned from " + k
			case *ast.ExprStmt:
				okUse = true
			}
			if debugFn {
				okUse = true
			}
			if !okUse {
				if why == "" {
					why = fmt.Sprintf("used in %T", parent)
				}
				items = append(items, failItem("opaque.ids/"+k+"/"+pos, "inventory", "node identifier "+what+" is used in a way that may depend on what the name looks like: "+why, pos))
			}
			return true
		})
	}
	// every reviewed map-key site must still exist (otherwise the list is stale)
	if len(items) == 0 {
		items = append(items, okItem("opaque.ids/inventory", "inventory", fmt.Sprintf("%d uses of node identifiers: only copies, equality tests, reviewed map keys (%s) and debug/monitor text", nSites, strings.Join(mc.pc.AllowedIDMapKeys, ", "))))
	}
	return items
}

// ---------------------------------------------------------------------------
// phases 1-3 never read sizes or spacings: no read of Node/Layer size fields and of the two spacing parameters in the
// packages of cycle breaking, layering, ordering, component splitting and pre/post-processing (direct reads, every function).

func modeSizesUnread(mc *modeCtx) []*checkItem {
	var items []*checkItem
	pk := map[string]bool{"phase1": true, "phase2": true, "phase3": true, "connected": true, "preprocessor": true, "postprocessor": true}
	n := 0
	for _, k := range mc.pr.FuncKeys {
		fi := mc.pr.Funcs[k]
		if !pk[pkgShort(fi.Pkg.PkgPath)] {
			continue
		}
		n++
		info := fi.Pkg.TypesInfo
		ast.Inspect(fi.Decl.Body, func(nd ast.Node) bool {
			se, ok := nd.(*ast.SelectorExpr)
			if !ok {
				return true
			}
			sel, ok := info.Selections[se]
			if !ok || sel.Kind() != types.FieldVal {
				return true
			}
			f := sel.Obj().(*types.Var)
			bad := false
			switch f.Name() {
			case "NodeSpacing", "LayerSpacing":
				bad = true
			case "X", "Y", "W", "H", "Size":
				bad = isFloat(f.Type()) || f.Name() == "Size"
			}
			if bad {
				items = append(items, failItem("sizes.unread/"+k+"/"+mc.pos(se.Pos()), "frame", k+" reads "+nodeText(mc.pr.Fset, se)+": phases 1-3 must not depend on sizes or spacings", mc.pos(se.Pos())))
			}
			return true
		})
	}
	if len(items) == 0 {
		items = append(items, okItem("sizes.unread", "frame", fmt.Sprintf("%d functions of phases 1-3, component splitting and pre/post-processing: no read of a size, coordinate or spacing", n)))
	}
	return items
}

// ---------------------------------------------------------------------------
// field.writers: a representation invariant that ties several fields together (an edge's ends and its reversed flag
// change only together, inside Edge.Reverse, whose contract says how) holds as long as nothing else assigns those
// fields. The mode lists every assignment to the configured fields in non-test code and fails on any function that is
// not on the reviewed list. Composite literals build fresh objects and are not assignments.
func modeFieldWriters(mc *modeCtx) []*checkItem {
	var items []*checkItem
	if len(mc.pc.FieldWriters) == 0 {
		return []*checkItem{{Name: "field.writers/config", Kind: "mode", Text: "no fields configured", Status: "error"}}
	}
	allowed := map[string]map[string]bool{}
	for f, ws := range mc.pc.FieldWriters {
		allowed[f] = map[string]bool{}
		for _, w := range ws {
			allowed[f][w] = true
		}
	}
	seen := map[string]bool{}
	for _, k := range mc.pr.FuncKeys {
		fi := mc.pr.Funcs[k]
		info := fi.Pkg.TypesInfo
		check := func(lhs ast.Expr, pos token.Pos) {
			se, ok := ast.Unparen(lhs).(*ast.SelectorExpr)
			if !ok {
				return
			}
			sel, ok := info.Selections[se]
			if !ok || sel.Kind() != types.FieldVal {
				return
			}
			fv, ok := sel.Obj().(*types.Var)
			if !ok || fv.Pkg() == nil {
				return
			}
			// owner: the struct type that declares the field
			owner := ""
			recv := sel.Recv()
			for _, idx := range sel.Index() {
				if p, ok := types.Unalias(recv).Underlying().(*types.Pointer); ok {
					recv = p.Elem()
				}
				st, ok := types.Unalias(recv).Underlying().(*types.Struct)
				if !ok {
					break
				}
				owner = typeName(recv)
				recv = st.Field(idx).Type()
			}
			name := owner + "." + fv.Name()
			if _, watched := allowed[name]; !watched {
				return
			}
			id := "field.writers/" + name + "/" + fi.Key
			if seen[id] {
				return
			}
			seen[id] = true
			it := &checkItem{Name: id, Kind: "mode", Func: fi.Key, Pos: fmt.Sprintf("%s:%d", shortFile(mc.pr.Fset.Position(pos).Filename), mc.pr.Fset.Position(pos).Line)}
			if allowed[name][fi.Key] {
				it.Status, it.Text = "ok", "reviewed writer of "+name
			} else {
				it.Status, it.Text = "fail", fi.Key+" assigns "+name+", which only the reviewed writers may change (the field is tied to others by an invariant that Edge.Reverse's contract maintains)"
			}
			items = append(items, it)
		}
		ast.Inspect(fi.Decl, func(n ast.Node) bool {
			switch n := n.(type) {
			case *ast.AssignStmt:
				for _, l := range n.Lhs {
					check(l, n.Pos())
				}
			case *ast.IncDecStmt:
				check(n.X, n.Pos())
			case *ast.UnaryExpr:
				if n.Op == token.AND {
					check(n.X, n.Pos())
				}
			}
			return true
		})
	}
	for f, ws := range mc.pc.FieldWriters {
		for _, w := range ws {
			if !seen["field.writers/"+f+"/"+w] {
				items = append(items, &checkItem{Name: "field.writers/" + f + "/" + w, Kind: "mode", Status: "ok", Text: "reviewed writer no longer assigns the field (list can be shortened)"})
			}
		}
	}
	sort.Slice(items, func(i, j int) bool { return items[i].Name < items[j].Name })
	return items
}
