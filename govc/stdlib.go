package main

// Models of standard-library callees (assumption A5).

import (
	"go/ast"
	"go/types"
)

func (x *Xlat) mathFn(name string, nargs int) *FuncDecl {
	ps := make([]Sort, nargs)
	for i := range ps {
		ps[i] = SReal
	}
	fd := &FuncDecl{Name: "m_" + name, Params: ps, Ret: SReal}
	x.ctx.DeclareFunc(fd)
	return fd
}

func (x *Xlat) stdlib(st *State, fr *Frame, out *Outcomes, ce *ast.CallExpr, recv ast.Expr, full string, sig *types.Signature) []*Term {
	info := fr.info()
	arg := func(i int) *Term { return x.eval(st, fr, out, ce.Args[i]) }
	switch full {
	case "math.Sqrt":
		a := x.ctx.Define("sqarg", arg(0))
		x.mathFn("sqrt", 1)
		r := App("m_sqrt", SReal, a)
		st.assume(Imp(App(">=", SBool, a, RealLit(0)), And(App(">=", SBool, r, RealLit(0)), Eq(App("*", SReal, r, r), a))))
		x.models["math.Sqrt: s>=0 && s*s==x for x>=0 (A5, reals)"] = true
		return []*Term{r}
	case "math.Cbrt":
		a := x.ctx.Define("cbarg", arg(0))
		x.mathFn("cbrt", 1)
		r := App("m_cbrt", SReal, a)
		st.assume(Eq(App("*", SReal, r, App("*", SReal, r, r)), a))
		x.models["math.Cbrt: u*u*u==x (A5, reals)"] = true
		return []*Term{r}
	case "math.Abs":
		a := arg(0)
		return []*Term{Ite(App(">=", SBool, a, RealLit(0)), a, App("-", SReal, a))}
	case "math.Hypot":
		a := x.ctx.Define("hyx", arg(0))
		b := x.ctx.Define("hyy", arg(1))
		x.mathFn("hypot", 2)
		r := App("m_hypot", SReal, a, b)
		st.assume(And(App(">=", SBool, r, RealLit(0)), Eq(App("*", SReal, r, r), App("+", SReal, App("*", SReal, a, a), App("*", SReal, b, b)))))
		x.models["math.Hypot: h>=0 && h*h==x*x+y*y (A5, reals)"] = true
		return []*Term{r}
	case "math.Round":
		a := x.ctx.Define("rnd", arg(0))
		// round half away from zero
		half := RealLitRatFrac(1, 2)
		r := Ite(App(">=", SBool, a, RealLit(0)),
			ToReal(App("to_int", SInt, App("+", SReal, a, half))),
			App("-", SReal, ToReal(App("to_int", SInt, App("+", SReal, App("-", SReal, a), half)))))
		x.models["math.Round: half away from zero (A5, reals)"] = true
		return []*Term{r}
	case "math.Floor":
		return []*Term{ToReal(App("to_int", SInt, arg(0)))}
	case "math.Ceil":
		a := arg(0)
		return []*Term{App("-", SReal, ToReal(App("to_int", SInt, App("-", SReal, a))))}
	case "math.Cos", "math.Sin", "math.Atan2", "math.Acos", "math.Pow", "math.Inf", "math.IsInf", "math.IsNaN", "math.Max", "math.Min":
		switch full {
		case "math.Max":
			a, b := arg(0), arg(1)
			return []*Term{Ite(App(">=", SBool, a, b), a, b)}
		case "math.Min":
			a, b := arg(0), arg(1)
			return []*Term{Ite(App("<=", SBool, a, b), a, b)}
		}
		var as []*Term
		for i := range ce.Args {
			as = append(as, x.coerceSort(arg(i), SReal))
		}
		name := full[5:]
		fd := &FuncDecl{Name: "m_" + name, Params: make([]Sort, len(as)), Ret: x.tm.SortOf(sig.Results().At(0).Type())}
		for i := range fd.Params {
			fd.Params[i] = SReal
		}
		x.ctx.DeclareFunc(fd)
		x.models["math."+name+": uninterpreted (A5)"] = true
		return []*Term{App(fd.Name, fd.Ret, as...)}
	case "strconv.Itoa":
		x.ctx.DeclareFunc(&FuncDecl{Name: "str_itoa", Params: []Sort{SInt}, Ret: SStr})
		x.models["strconv.Itoa: uninterpreted function of its argument (A5)"] = true
		return []*Term{App("str_itoa", SStr, arg(0))}
	case "slices.Clip":
		s := arg(0)
		x.models["slices.Clip: same array, cap=len (A5)"] = true
		return []*Term{MkSlice(SArr(s), SOff(s), SLen(s), SLen(s))}
	case "slices.Grow":
		s := x.ctx.Define("grow", arg(0))
		n := arg(1)
		et := types.Unalias(info.TypeOf(ce)).Underlying().(*types.Slice).Elem()
		x.safety(st, out, "grow", App(">=", SBool, n, IntLit(0)), ce.Pos(), "slices.Grow: negative n")
		// either unchanged or moved to a fresh array with the same contents
		moved := x.ctx.Fresh("moved", SBool)
		fresh := x.cloneSlice(st, s, et, App("+", SInt, SLen(s), n))
		x.models["slices.Grow: same slice or a fresh copy with cap>=len+n (A5)"] = true
		return []*Term{x.ctx.Define("grown", Ite(moved, fresh, s))}
	case "slices.Clone":
		s := x.ctx.Define("cl", arg(0))
		et := types.Unalias(info.TypeOf(ce)).Underlying().(*types.Slice).Elem()
		x.models["slices.Clone: fresh array with equal contents; nil stays nil (A5)"] = true
		fresh := x.cloneSlice(st, s, et, SLen(s))
		return []*Term{x.ctx.Define("cloned", Ite(Eq(SArr(s), IntLit(0)), NilSlice(), fresh))}
	case "slices.Reverse":
		s := x.ctx.Define("rv", arg(0))
		et := types.Unalias(info.TypeOf(ce.Args[0])).Underlying().(*types.Slice).Elem()
		es := x.tm.SortOf(et)
		key := x.tm.ElemsKey(et)
		h := x.get(st, key, elemsSort(es))
		res := x.ctx.Fresh("arrv", ArrSort(SInt, es))
		i := Const("i!", SInt)
		old := Sel(h, SArr(s))
		st.assume(Forall([]Bind{{"i!", SInt}}, Imp(And(App("<=", SBool, IntLit(0), i), App("<", SBool, i, SLen(s))),
			Eq(Sel(res, App("+", SInt, SOff(s), i)), Sel(old, App("+", SInt, SOff(s), App("-", SInt, App("-", SInt, SLen(s), IntLit(1)), i)))))))
		st.assume(Forall([]Bind{{"i!", SInt}}, Imp(Or(App("<", SBool, i, SOff(s)), App(">=", SBool, i, App("+", SInt, SOff(s), SLen(s)))),
			Eq(Sel(res, i), Sel(old, i)))))
		h2 := x.setElems(st, key, es, h, Sto(h, SArr(s), res), touchedWindow(s, SLen(s)))
		// the same over at(): element i of the reversed slice is element len-1-i of the original
		lhs := x.atTerm(h2, s, i, es)
		st.assume(Forall([]Bind{{"i!", SInt}}, Imp(And(App("<=", SBool, IntLit(0), i), App("<", SBool, i, SLen(s))),
			Eq(lhs, x.atTerm(h, s, App("-", SInt, App("-", SInt, SLen(s), IntLit(1)), i), es))), []*Term{lhs}))
		x.models["slices.Reverse: element i <-> len-1-i (A5)"] = true
		return nil
	case "sort.Slice", "sort.Ints", "sort.Float64s", "sort.SliceStable":
		s := x.ctx.Define("srt", arg(0))
		et := types.Unalias(info.TypeOf(ce.Args[0])).Underlying().(*types.Slice).Elem()
		es := x.tm.SortOf(et)
		key := x.tm.ElemsKey(et)
		h := x.get(st, key, elemsSort(es))
		res := x.ctx.Fresh("arrv", ArrSort(SInt, es))
		perm := x.ctx.Fresh("perm", ArrSort(SInt, SInt))
		i, j := Const("i!", SInt), Const("j!", SInt)
		inr := func(v *Term) *Term { return And(App("<=", SBool, IntLit(0), v), App("<", SBool, v, SLen(s))) }
		old := Sel(h, SArr(s))
		// result is a permutation of the input (injective index map into range), outside untouched
		st.assume(Forall([]Bind{{"i!", SInt}}, Imp(inr(i), And(inr(Sel(perm, i)),
			Eq(Sel(res, App("+", SInt, SOff(s), i)), Sel(old, App("+", SInt, SOff(s), Sel(perm, i))))))))
		st.assume(Forall([]Bind{{"i!", SInt}, {"j!", SInt}}, Imp(And(inr(i), inr(j), Not(Eq(i, j))), Not(Eq(Sel(perm, i), Sel(perm, j))))))
		st.assume(Forall([]Bind{{"i!", SInt}}, Imp(Or(App("<", SBool, i, SOff(s)), App(">=", SBool, i, App("+", SInt, SOff(s), SLen(s)))),
			Eq(Sel(res, i), Sel(old, i)))))
		if full == "sort.Ints" || full == "sort.Float64s" {
			st.assume(Forall([]Bind{{"i!", SInt}, {"j!", SInt}}, Imp(And(inr(i), inr(j), App("<=", SBool, i, j)),
				App("<=", SBool, Sel(res, App("+", SInt, SOff(s), i)), Sel(res, App("+", SInt, SOff(s), j))))))
		}
		h2 := x.setElems(st, key, es, h, Sto(h, SArr(s), res), touchedWindow(s, SLen(s)))
		{
			// the same facts over at(), plus the inverse index map (every input element occurs in the output)
			inv := x.ctx.Fresh("perminv", ArrSort(SInt, SInt))
			lhs := x.atTerm(h2, s, i, es)
			st.assume(Forall([]Bind{{"i!", SInt}}, Imp(inr(i), Eq(lhs, x.atTerm(h, s, Sel(perm, i), es))), []*Term{lhs}))
			lhs2 := x.atTerm(h, s, j, es)
			st.assume(Forall([]Bind{{"j!", SInt}}, Imp(inr(j), And(inr(Sel(inv, j)), Eq(Sel(perm, Sel(inv, j)), j), Eq(x.atTerm(h2, s, Sel(inv, j), es), lhs2))), []*Term{lhs2}))
		}
		x.models[full+": result is a permutation of the input (sortedness w.r.t. the comparator is not used) (A5)"] = true
		return nil
	case "maps.Clone":
		m := arg(0)
		mt := types.Unalias(info.TypeOf(ce)).Underlying().(*types.Map)
		r := x.allocRef(st, "mapclone", info.TypeOf(ce))
		ks, vs := x.tm.SortOf(mt.Key()), x.tm.SortOf(mt.Elem())
		dk, vk := mapDomKey(ks, vs), mapValKey(ks, vs)
		hd := x.get(st, dk, ArrSort(SRef, ArrSort(ks, SBool)))
		hv := x.get(st, vk, ArrSort(SRef, ArrSort(ks, vs)))
		hl := x.get(st, mapLenKey, ArrSort(SRef, SInt))
		x.set(st, dk, Sto(hd, r, Sel(hd, m)))
		x.set(st, vk, Sto(hv, r, Sel(hv, m)))
		x.set(st, mapLenKey, Sto(hl, r, Sel(hl, m)))
		x.models["maps.Clone: fresh map with equal content (A5)"] = true
		return []*Term{Ite(Eq(m, TNull), TNull, r)}
	case "maps.Copy":
		dst, src := arg(0), arg(1)
		mt := types.Unalias(info.TypeOf(ce.Args[0])).Underlying().(*types.Map)
		ks, vs := x.tm.SortOf(mt.Key()), x.tm.SortOf(mt.Elem())
		dk, vk := mapDomKey(ks, vs), mapValKey(ks, vs)
		hd := x.get(st, dk, ArrSort(SRef, ArrSort(ks, SBool)))
		hv := x.get(st, vk, ArrSort(SRef, ArrSort(ks, vs)))
		hl := x.get(st, mapLenKey, ArrSort(SRef, SInt))
		// writing into a nil map panics as soon as src holds an entry
		x.safety(st, out, "nilmap", Or(Not(Eq(dst, TNull)), Eq(src, TNull), Eq(Sel(hl, src), IntLit(0))), ce.Pos(), "maps.Copy into a nil map")
		nd := x.ctx.Fresh("mcopyD", ArrSort(ks, SBool))
		nv := x.ctx.Fresh("mcopyV", ArrSort(ks, vs))
		nl := x.ctx.Fresh("mcopyL", SInt)
		k := Const("k!mc", ks)
		bk := []Bind{{"k!mc", ks}}
		inSrc := And(Not(Eq(src, TNull)), Sel(Sel(hd, src), k))
		st.assume(Forall(bk, Eq(Sel(nd, k), Or(Sel(Sel(hd, dst), k), inSrc)), []*Term{Sel(nd, k)}))
		st.assume(Forall(bk, Eq(Sel(nv, k), Ite(inSrc, Sel(Sel(hv, src), k), Sel(Sel(hv, dst), k))), []*Term{Sel(nv, k)}))
		st.assume(And(App(">=", SBool, nl, Sel(hl, dst)), Or(Eq(src, TNull), App(">=", SBool, nl, Sel(hl, src)))))
		x.set(st, dk, Sto(hd, dst, nd))
		x.set(st, vk, Sto(hv, dst, nv))
		x.set(st, mapLenKey, Sto(hl, dst, nl))
		x.models["maps.Copy: dst gets every entry of src, keeps its other entries (A5)"] = true
		return nil
	case "time.Now", "math/rand.NewSource", "math/rand.New", "time.Time.UnixNano":
		var rs []*Term
		for i := 0; i < sig.Results().Len(); i++ {
			rs = append(rs, x.freshTyped(st, "ext", sig.Results().At(i).Type()))
		}
		x.models[full+": arbitrary value"] = true
		return rs
	case "math/rand.Rand.Intn":
		n := arg(0)
		x.safety(st, out, "intn", App(">", SBool, n, IntLit(0)), ce.Pos(), "rand.Intn: n <= 0")
		r := x.ctx.Fresh("rnd", SInt)
		st.assume(And(App("<=", SBool, IntLit(0), r), App("<", SBool, r, n)))
		x.models["rand.Intn(n): any value in [0,n) (covers every seed)"] = true
		return []*Term{r}
	}
	x.unsupp(ce.Pos(), "call of external function %s", full)
	return nil
}

func RealLitRatFrac(a, b int64) *Term {
	return &Term{Op: "(/ " + itoa(a) + ".0 " + itoa(b) + ".0)", Sort: SReal, lit: true}
}

func itoa(n int64) string {
	if n == 0 {
		return "0"
	}
	neg := n < 0
	if neg {
		n = -n
	}
	var b []byte
	for n > 0 {
		b = append([]byte{byte('0' + n%10)}, b...)
		n /= 10
	}
	if neg {
		return "-" + string(b)
	}
	return string(b)
}

// cloneSlice returns a slice over a fresh array holding the live elements of s, with capacity >= mincap.
func (x *Xlat) cloneSlice(st *State, s *Term, et types.Type, mincap *Term) *Term {
	es := x.tm.SortOf(et)
	key := x.tm.ElemsKey(et)
	h := x.get(st, key, elemsSort(es))
	a := x.allocArr(st)
	fresh := x.ctx.Fresh("arrv", ArrSort(SInt, es))
	i := Const("i!", SInt)
	st.assume(Forall([]Bind{{"i!", SInt}}, Imp(And(App("<=", SBool, IntLit(0), i), App("<", SBool, i, SLen(s))),
		Eq(Sel(fresh, i), Sel(Sel(h, SArr(s)), App("+", SInt, SOff(s), i))))))
	st.assume(Forall([]Bind{{"i!", SInt}}, Imp(Or(App("<", SBool, i, IntLit(0)), App(">=", SBool, i, SLen(s))), Eq(Sel(fresh, i), x.tm.Zero(et)))))
	h2 := x.setElems(st, key, es, h, Sto(h, a, fresh), touchedArr(a))
	c := x.ctx.Fresh("cap", SInt)
	{
		res := MkSlice(a, IntLit(0), SLen(s), IntLit(0))
		_ = res
		ib := Const("i!", SInt)
		// contents over at(): element i of the clone equals element i of the source (for any capacity)
		cb := Const("c!", SInt)
		lhs := x.atTerm(h2, MkSlice(a, IntLit(0), SLen(s), cb), ib, es)
		st.assume(Forall([]Bind{{"i!", SInt}, {"c!", SInt}}, Imp(And(App("<=", SBool, IntLit(0), ib), App("<", SBool, ib, SLen(s))), Eq(lhs, x.atTerm(h, s, ib, es))), []*Term{lhs}))
	}
	st.assume(App(">=", SBool, c, mincap))
	st.assume(App(">=", SBool, c, SLen(s)))
	return MkSlice(a, IntLit(0), SLen(s), c)
}
