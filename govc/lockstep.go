package main

// Lockstep (relational) verification for scale equivariance (C17).
//
// The second execution is not run separately: it is the image of the first one under the substitution "twin" that
// renames every constant whose sort contains a Real (floats, structs/arrays of floats, heap regions of floats) to a
// primed copy. Everything else (integers, references, slices, booleans) is shared between the two executions - which
// is justified by the obligations generated here: every branch condition must be provably equal in both executions,
// every non-float value written to the state must be provably equal, and every float location must satisfy the
// coupling twin == 2 * original at loop ends, before calls and at exit, assuming it at entry and at loop heads.

import (
	"fmt"
	"go/token"
	"strings"
)

type lockCtx struct {
	assume  []*Term         // coupling assumptions (entry values, loop-head values, results of lockstep-verified callees)
	coupled map[string]bool // constants already coupled
	funcs   map[string]bool // functions verified in lockstep (their calls may assume "coupled in => coupled out")
	two     *Term
	defTwin map[string]*Term // twins of defined constants of float-free sorts (nil: identical in both executions)
}

func (c *Ctx) containsReal(s Sort) bool {
	switch s {
	case SReal:
		return true
	case SInt, SBool, SRef, SStr, SSlice, SFunc, SIface, "Fuel":
		return false
	}
	if _, v, ok := splitArrSort(s); ok {
		return c.containsReal(v)
	}
	if d, ok := c.dtByName[s]; ok {
		for _, f := range d.Fields {
			if f.Sort != s && c.containsReal(f.Sort) {
				return true
			}
		}
	}
	return false
}

const twinSuffix = "%2"

// twin applies the renaming to a term. Twin constants (with twinned definitions and axioms) are materialised on the fly.
func (x *Xlat) twin(t *Term) *Term {
	return x.twinB(t, map[string]int{})
}

func (x *Xlat) twinB(t *Term, bound map[string]int) *Term {
	if t.Q != "" {
		for _, b := range t.Binds {
			bound[b.Name]++
		}
		body := x.twinB(t.Args[0], bound)
		var pats [][]*Term
		for _, p := range t.Pats {
			var np []*Term
			for _, q := range p {
				np = append(np, x.twinB(q, bound))
			}
			pats = append(pats, np)
		}
		for _, b := range t.Binds {
			bound[b.Name]--
		}
		if body == t.Args[0] {
			return t
		}
		return &Term{Q: t.Q, Binds: t.Binds, Args: []*Term{body}, Sort: t.Sort, Pats: pats}
	}
	if len(t.Args) == 0 {
		if t.lit || bound[t.Op] > 0 {
			return t
		}
		s, ok := x.ctx.consts[t.Op]
		if !ok || strings.HasSuffix(t.Op, twinSuffix) {
			return t
		}
		if !x.ctx.containsReal(s) {
			// a defined constant of a float-free sort (a comparison result, an index computed from lengths, ...) still
			// differs between the two executions when its definition mentions floats: twin the definition
			d, isDef := x.ctx.defs[t.Op]
			if !isDef {
				return t
			}
			if r, seen := x.lock.defTwin[t.Op]; seen {
				if r == nil {
					return t
				}
				return r
			}
			x.lock.defTwin[t.Op] = nil // guards against cyclic definitions
			td := x.twinB(d, map[string]int{})
			if td == d {
				return t
			}
			tn := t.Op + twinSuffix
			x.ctx.consts[tn] = s
			x.ctx.defs[tn] = td
			r := x.ctx.Named(tn, s)
			x.lock.defTwin[t.Op] = r
			return r
		}
		return x.twinConst(t.Op, s)
	}
	if t.Op == "m_Inf" && x.lock != nil {
		// math.Inf(s): a sentinel that scales with the unit (2 * Inf == Inf in IEEE arithmetic): the scaled execution sees
		// "the same" infinity, which in the real-number model is its double
		return App("*", SReal, x.lock.two, t)
	}
	changed := false
	args := make([]*Term, len(t.Args))
	for i, a := range t.Args {
		args[i] = x.twinB(a, bound)
		if args[i] != a {
			changed = true
		}
	}
	if !changed {
		return t
	}
	return &Term{Op: t.Op, Args: args, Sort: t.Sort}
}

func (x *Xlat) twinConst(name string, s Sort) *Term {
	tn := name + twinSuffix
	if _, ok := x.ctx.consts[tn]; !ok {
		x.ctx.consts[tn] = s
		if d, ok := x.ctx.defs[name]; ok {
			x.ctx.defs[tn] = x.twin(d)
		}
		if as, ok := x.ctx.constAxioms[name]; ok {
			var ts []*Term
			for _, a := range as {
				ts = append(ts, x.twin(a))
			}
			x.ctx.constAxioms[tn] = ts
		}
	}
	return x.ctx.Named(tn, s)
}

// coupling of a value of Real-containing sort: every float component doubles, every other component is equal.
func (x *Xlat) coup(t *Term) *Term {
	return x.coupPair(t, x.twin(t))
}

func (x *Xlat) coupPair(t, tt *Term) *Term {
	s := t.Sort
	switch {
	case s == SReal:
		return Eq(tt, App("*", SReal, x.lock.two, t))
	case !x.ctx.containsReal(s):
		return Eq(tt, t)
	}
	if k, v, ok := splitArrSort(s); ok && v == SReal {
		// flat array of floats: pointwise doubling through the array-map combinator (decided by z3's array theory, no quantifier)
		_ = k
		two := App("(as const "+s+")", s, x.lock.two)
		return Eq(tt, App("(_ map (* (Real Real) Real))", s, two, t))
	}
	if k, v, ok := splitArrSort(s); ok {
		if k2, _, ok2 := splitArrSort(v); ok2 {
			// element heap / map values: raw nested selects with both sides as triggers
			x.qn++
			an, in := fmt.Sprintf("la!%d", x.qn), fmt.Sprintf("li!%d", x.qn)
			ab, ib := Const(an, k), Const(in, k2)
			a, b := Sel(Sel(t, ab), ib), Sel(Sel(tt, ab), ib)
			return Forall([]Bind{{an, k}, {in, k2}}, x.coupPair(a, b), []*Term{a}, []*Term{b})
		}
	}
	if k, _, ok := splitArrSort(s); ok {
		x.qn++
		bn := fmt.Sprintf("lk!%d", x.qn)
		b := Const(bn, k)
		return Forall([]Bind{{bn, k}}, x.coupPair(Sel(t, b), Sel(tt, b)))
	}
	if d, ok := x.ctx.dtByName[s]; ok {
		var cs []*Term
		for _, f := range d.Fields {
			cs = append(cs, x.coupPair(App(f.Name, f.Sort, t), App(f.Name, f.Sort, tt)))
		}
		return And(cs...)
	}
	return Eq(tt, t)
}

// lockCouple assumes the coupling for a constant (entry value, loop-head value, result of a lockstep-verified callee).
func (x *Xlat) lockCouple(c *Term) {
	if x.lock == nil || len(c.Args) != 0 || c.lit {
		return
	}
	if x.lock.coupled[c.Op] || !x.ctx.containsReal(c.Sort) {
		return
	}
	x.lock.coupled[c.Op] = true
	x.lock.assume = append(x.lock.assume, x.coup(c))
	// element heaps: the same assumption phrased over at(), so that it chains with the frame facts of writes and appends
	if k, v, ok := splitArrSort(c.Sort); ok && k == SInt {
		if k2, es, ok2 := splitArrSort(v); ok2 && k2 == SInt {
			x.qn++
			tn, jn := fmt.Sprintf("lt!%d", x.qn), fmt.Sprintf("lj!%d", x.qn)
			tb, jb := Const(tn, SSlice), Const(jn, SInt)
			a, b := x.atTerm(c, tb, jb, es), x.atTerm(x.twin(c), tb, jb, es)
			x.lock.assume = append(x.lock.assume, Forall([]Bind{{tn, SSlice}, {jn, SInt}}, x.coupPair(a, b), []*Term{a}, []*Term{b}))
		}
	}
}

func (x *Xlat) lockHyps(st *State) []*Term {
	h := st.hyps()
	out := make([]*Term, 0, 2*len(h)+len(x.lock.assume))
	out = append(out, h...)
	for _, t := range h {
		tt := x.twin(t)
		if tt != t {
			out = append(out, tt)
		}
	}
	// entry coupling for every input constant seen so far
	for _, k := range sortedKeys(x.ctx.consts) {
		if strings.HasSuffix(k, twinSuffix) {
			continue
		}
		if strings.HasSuffix(k, "@0") || strings.HasPrefix(k, "p$") {
			x.lockCouple(x.ctx.Named(k, x.ctx.consts[k]))
		}
	}
	out = append(out, x.lock.assume...)
	return out
}

func (x *Xlat) lockEmit(st *State, name string, goal *Term, pos token.Pos, text string) {
	if goal.IsTrue() {
		return
	}
	o := &Obligation{Name: name, Kind: "lockstep", Func: x.curFunc, Goal: goal, Text: text, Ctx: x.ctx}
	o.Hyps = x.lockHyps(st) // after the goal has been built, so that every twin exists
	if pos.IsValid() {
		o.Pos = x.prog.Fset.Position(pos)
	}
	x.obls = append(x.obls, o)
}

// lockBranch: a branch condition (or a run-time check) must have the same truth value in both executions.
func (x *Xlat) lockBranch(st *State, c *Term, pos token.Pos, what string) {
	if x.lock == nil {
		return
	}
	ct := x.twin(c)
	if ct == c {
		return
	}
	x.lockEmit(st, fmt.Sprintf("%s/lockstep.branch.%d", x.curFunc, x.bump("lock.branch")), Eq(c, ct), pos, "both executions take the same branch: "+what)
}

// lockState: every location written so far is coupled (floats doubled, everything else equal).
func (x *Xlat) lockState(st *State, keys []string, phase string, pos token.Pos) {
	if x.lock == nil || st == nil || st.dead() {
		return
	}
	for _, k := range keys {
		v, ok := st.env[k]
		if !ok {
			continue
		}
		vt := x.twin(v)
		if vt == v {
			continue
		}
		x.lockEmit(st, fmt.Sprintf("%s/lockstep.%s[%s]#%d", x.curFunc, phase, k, x.bump("lock."+phase+k)), x.coupPair(v, vt), pos,
			"scaled execution stays coupled at "+phase+" for "+k+" (floats doubled, everything else equal)")
	}
}

func (x *Xlat) lockAllKeys(st *State) []string {
	var ks []string
	for _, k := range sortedKeys(st.env) {
		if isRegionKey(k) && !strings.HasPrefix(k, "GW$") {
			ks = append(ks, k)
		}
	}
	return ks
}
