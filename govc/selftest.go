package main

// Must-fail corpus: every mutant is applied to a scratch copy of /repo's working tree (outside /repo and /verif,
// removed immediately) and the property check must report the expected obligation. A surviving mutant is an engine failure.

import (
	"encoding/json"
	"flag"
	"fmt"
	"os"
	"os/exec"
	"path/filepath"
	"sort"
	"strings"
	"sync"
)

type Mutant struct {
	Name     string `json:"name"`
	Property string `json:"property"`
	Patch    string `json:"patch"`
	Expect   string `json:"expect"`
}

func copyRepo(src, dst string) error {
	// working tree files tracked by git plus untracked non-ignored ones (contract files may be uncommitted during development)
	cmd := exec.Command("sh", "-c", fmt.Sprintf("cd %q && (git ls-files -z; git ls-files -z --others --exclude-standard) | xargs -0 cp --parents -t %q", src, dst))
	out, err := cmd.CombinedOutput()
	if err != nil {
		return fmt.Errorf("%v: %s", err, out)
	}
	return nil
}

func cmdSelftest(args []string) int {
	fs := flag.NewFlagSet("selftest", flag.ExitOnError)
	repo := fs.String("repo", "/repo", "repository root")
	only := fs.String("only", "", "run only mutants whose name or property contains this")
	par := fs.Int("j", 4, "parallel mutants")
	fs.Parse(args)
	root := verifRoot()
	files, _ := filepath.Glob(filepath.Join(root, "selftest", "mutants", "*.json"))
	sort.Strings(files)
	var muts []Mutant
	for _, f := range files {
		var m Mutant
		d, err := os.ReadFile(f)
		if err != nil || json.Unmarshal(d, &m) != nil {
			fmt.Println("bad mutant file", f)
			return 2
		}
		if *only != "" && !strings.Contains(m.Name, *only) && !strings.Contains(m.Property, *only) {
			continue
		}
		muts = append(muts, m)
	}
	exe, _ := os.Executable()
	bad := 0
	var mu sync.Mutex
	var wg sync.WaitGroup
	sem := make(chan struct{}, *par)
	for _, m := range muts {
		m := m
		wg.Add(1)
		sem <- struct{}{}
		go func() {
			defer wg.Done()
			defer func() { <-sem }()
			res := runMutant(exe, root, *repo, m)
			mu.Lock()
			fmt.Println(res)
			if !strings.HasPrefix(res, "killed") {
				bad++
			}
			mu.Unlock()
		}()
	}
	wg.Wait()
	fmt.Printf("selftest: %d mutants, %d not detected as expected\n", len(muts), bad)
	if bad > 0 {
		return 2
	}
	return 0
}

func runMutant(exe, root, repo string, m Mutant) string {
	dir, err := os.MkdirTemp("", "govc-mut-")
	if err != nil {
		return "ERROR " + m.Name + ": " + err.Error()
	}
	defer os.RemoveAll(dir)
	work := filepath.Join(dir, "repo")
	os.MkdirAll(work, 0o755)
	if err := copyRepo(repo, work); err != nil {
		return "ERROR " + m.Name + ": copy: " + err.Error()
	}
	patch := filepath.Join(root, "selftest", "mutants", m.Patch)
	if out, err := exec.Command("patch", "-p1", "-s", "-d", work, "-i", patch).CombinedOutput(); err != nil {
		return "ERROR " + m.Name + ": patch does not apply: " + strings.TrimSpace(string(out))
	}
	cmd := exec.Command(exe, "check", "-property", m.Property, "-repo", work, "-evidence", filepath.Join(dir, "ev"))
	cmd.Env = append(os.Environ(), "VERIF_ROOT="+root, "GOVC_REPLAY_DIR="+filepath.Join(dir, "replays"), "XDG_CACHE_HOME="+filepath.Join(dir, "cache"))
	out, _ := cmd.CombinedOutput()
	code := cmd.ProcessState.ExitCode()
	s := string(out)
	hit := false
	stat := map[string]int{}
	for _, ln := range strings.Split(s, "\n") {
		if strings.HasPrefix(ln, "FAILED-OBLIGATION") && strings.Contains(ln, m.Expect) {
			hit = true
			if a, b := strings.Index(ln, "["), strings.Index(ln, "]"); a >= 0 && b > a {
				stat[ln[a+1:b]]++
			}
		}
		if strings.HasPrefix(ln, "REPLAYED") {
			stat["replayed"]++
		}
	}
	switch {
	case code == 1 && hit:
		return fmt.Sprintf("killed   %-40s %s: %s fails %v", m.Name, m.Property, m.Expect, stat)
	case code == 1:
		var fl []string
		for _, ln := range strings.Split(s, "\n") {
			if strings.HasPrefix(ln, "FAILED-OBLIGATION") {
				fl = append(fl, strings.Fields(ln)[1])
			}
		}
		return fmt.Sprintf("OTHER    %-40s %s: violation reported but not at %s; failed: %v", m.Name, m.Property, m.Expect, fl)
	default:
		tail := s
		if len(tail) > 400 {
			tail = tail[len(tail)-400:]
		}
		return fmt.Sprintf("SURVIVED %-40s %s: exit %d; %s", m.Name, m.Property, code, strings.ReplaceAll(tail, "\n", " | "))
	}
}
