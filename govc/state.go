package main

// Symbolic state, merging, frames, outcomes, obligations.

import (
	"strings"
	"go/ast"
	"go/token"
	"go/types"

	"golang.org/x/tools/go/packages"
)

type State struct {
	guards []*Term // branch decisions (quantifier free as far as the code is)
	facts  []*Term // assumptions (may be quantified)
	env    map[string]*Term
}

func NewState() *State { return &State{env: map[string]*Term{}} }

func (s *State) clone() *State {
	n := &State{guards: append([]*Term(nil), s.guards...), facts: append([]*Term(nil), s.facts...), env: make(map[string]*Term, len(s.env))}
	for k, v := range s.env {
		n.env[k] = v
	}
	return n
}

func (s *State) hyps() []*Term {
	out := make([]*Term, 0, len(s.guards)+len(s.facts))
	out = append(out, s.guards...)
	out = append(out, s.facts...)
	return out
}

func (s *State) guard(t *Term) {
	if t.IsTrue() {
		return
	}
	if t.Op == "and" && t.Q == "" {
		s.guards = append(s.guards, t.Args...)
		return
	}
	s.guards = append(s.guards, t)
}

func (s *State) assume(t *Term) {
	if t.IsTrue() {
		return
	}
	if t.Op == "and" && t.Q == "" {
		for _, a := range t.Args {
			s.assume(a)
		}
		return
	}
	s.facts = append(s.facts, t)
}

func (s *State) dead() bool {
	for _, g := range s.guards {
		if g.IsFalse() {
			return true
		}
	}
	for _, g := range s.facts {
		if g.IsFalse() {
			return true
		}
	}
	return false
}

func commonPrefix(a, b []*Term) int {
	n := 0
	for n < len(a) && n < len(b) && a[n] == b[n] {
		n++
	}
	return n
}

// merge joins two states reaching the same program point.
func (x *Xlat) merge(a, b *State) *State {
	if a == nil || a.dead() {
		if b != nil && b.dead() {
			return nil
		}
		return b
	}
	if b == nil || b.dead() {
		return a
	}
	if a == b {
		return a
	}
	n := commonPrefix(a.guards, b.guards)
	ra, rb := a.guards[n:], b.guards[n:]
	ga, gb := And(ra...), And(rb...)
	out := &State{env: map[string]*Term{}}
	out.guards = append(out.guards, a.guards[:n]...)
	// complementary single conditions vanish
	if !(len(ra) == 1 && len(rb) == 1 && (Not(ra[0]) == rb[0] || Not(rb[0]) == ra[0] || (ra[0].Op == "not" && ra[0].Args[0] == rb[0]) || (rb[0].Op == "not" && rb[0].Args[0] == ra[0]))) {
		d := Or(ga, gb)
		if !d.IsTrue() {
			out.guards = append(out.guards, d)
		}
	}
	m := commonPrefix(a.facts, b.facts)
	out.facts = append(out.facts, a.facts[:m]...)
	for _, f := range a.facts[m:] {
		out.facts = append(out.facts, Imp(ga, f))
	}
	for _, f := range b.facts[m:] {
		out.facts = append(out.facts, Imp(gb, f))
	}
	cond := ga
	if cond.Size() > 6 {
		cond = x.ctx.Define("mc", cond)
	}
	for _, k := range sortedKeys(a.env) {
		va := a.env[k]
		vb, ok := b.env[k]
		if !ok {
			if isRegionKey(k) {
				vb = x.initial(k, va.Sort)
			} else if strings.HasPrefix(k, "defer$") || strings.HasPrefix(k, "GW$") || k == "$panicking" {
				vb = TFalse
			} else {
				continue
			}
		}
		if va == vb {
			out.env[k] = va
			continue
		}
		out.env[k] = x.ctx.Define("m$"+k, Ite(cond, va, vb))
		x.mergeElemsBridge(out, k, out.env[k], cond, va, vb)
	}
	for _, k := range sortedKeys(b.env) {
		vb := b.env[k]
		if _, ok := a.env[k]; ok {
			continue
		}
		if strings.HasPrefix(k, "defer$") || strings.HasPrefix(k, "GW$") || k == "$panicking" {
			out.env[k] = x.ctx.Define("m$"+k, Ite(cond, TFalse, vb))
			continue
		}
		if isRegionKey(k) {
			va := x.initial(k, vb.Sort)
			if va == vb {
				out.env[k] = va
			} else {
				out.env[k] = x.ctx.Define("m$"+k, Ite(cond, va, vb))
				x.mergeElemsBridge(out, k, out.env[k], cond, va, vb)
			}
		}
	}
	return out
}

func isRegionKey(k string) bool {
	if len(k) < 2 {
		return false
	}
	switch {
	case k[0] == 'H' && k[1] == '$', k[0] == 'G' && k[1] == '$':
		return true
	}
	for _, p := range []string{"Elems$", "MapVal$", "MapDom$", "MapLen", "Alloc", "ArrAlloc", "Box$"} {
		if len(k) >= len(p) && k[:len(p)] == p {
			return true
		}
	}
	return false
}

// initial value of a region: a stable named constant
// ensureSort: a region reached only through a callee's effect set may have a sort whose datatypes were never
// materialised in this function's context; copy their declarations over from the effect analysis' context.
func (x *Xlat) ensureSort(s Sort) {
	if k, v, ok := splitArrSort(s); ok {
		x.ensureSort(k)
		x.ensureSort(v)
		return
	}
	if x.sortKnown(s) || x.eff == nil || x.eff.tm == nil {
		return
	}
	if d := x.eff.tm.ctx.dtByName[s]; d != nil {
		for _, f := range d.Fields {
			if f.Sort != s {
				x.ensureSort(f.Sort)
			}
		}
		x.ctx.AddDatatype(d)
	}
}

func (x *Xlat) initial(key string, s Sort) *Term {
	x.ensureSort(s)
	t := x.ctx.Named(key+"@0", s)
	if _, done := x.ctx.constAxioms[t.Op]; !done {
		var al, aal *Term
		if key != allocKey && key != arrAllocKey {
			al = x.ctx.Named(allocKey+"@0", ArrSort(SRef, SBool))
			aal = x.ctx.Named(arrAllocKey+"@0", ArrSort(SInt, SBool))
		}
		if ax := regionAxiom(key, t, al, aal); ax != nil {
			x.ctx.constAxioms[t.Op] = []*Term{ax}
		} else {
			x.ctx.constAxioms[t.Op] = nil
		}
		if ax := x.structElemsAxiom(key, t); ax != nil {
			x.ctx.constAxioms[t.Op] = append(x.ctx.constAxioms[t.Op], ax)
		}
	}
	return t
}

func (x *Xlat) get(st *State, key string, s Sort) *Term {
	if v, ok := st.env[key]; ok {
		return v
	}
	if isRegionKey(key) {
		return x.initial(key, s)
	}
	// uninitialised local: should not happen
	v := x.ctx.Fresh("undef$"+key, s)
	st.env[key] = v
	return v
}

func (x *Xlat) set(st *State, key string, v *Term) {
	if len(v.Args) > 0 && v.Size() > 4 {
		v = x.ctx.Define(key, v)
	}
	st.env[key] = v
}

// Outcomes of executing a statement.
type Outcomes struct {
	normal *State
	brk    map[string]*State
	cont   map[string]*State
	ret    *State
	pan    *State
	gotos  map[string]*State
}

func (x *Xlat) mergeMap(a, b map[string]*State) map[string]*State {
	if len(a) == 0 {
		return b
	}
	if len(b) == 0 {
		return a
	}
	out := map[string]*State{}
	for k, v := range a {
		out[k] = v
	}
	for k, v := range b {
		out[k] = x.merge(out[k], v)
	}
	return out
}

// absorb merges the abrupt outcomes of o into acc (normal is handled by the caller).
func (x *Xlat) absorb(acc *Outcomes, o *Outcomes) {
	acc.brk = x.mergeMap(acc.brk, o.brk)
	acc.cont = x.mergeMap(acc.cont, o.cont)
	acc.gotos = x.mergeMap(acc.gotos, o.gotos)
	acc.ret = x.merge(acc.ret, o.ret)
	acc.pan = x.merge(acc.pan, o.pan)
}

type Closure struct {
	lit   *ast.FuncLit
	frame *Frame
	pkg   *packages.Package
}

type Frame struct {
	id        int
	fi        *FuncInfo
	lit       *ast.FuncLit
	pkg       *packages.Package
	parent    *Frame // lexical parent (closures)
	caller    *Frame
	vars      map[*types.Var]string
	refParams map[*types.Var]Place
	closures  map[*types.Var]*Closure
	results   []string
	resultTys []types.Type
	defers    []*ast.CallExpr
	entry     *State
	loopEntry []*State
	ghost     map[string]string // spec-visible ghost names (loop indices etc.) -> env key
	depth     int
	top       bool
	gtypes    map[string]types.Type
}

func (f *Frame) info() *types.Info { return f.pkg.TypesInfo }

type Obligation struct {
	Name   string
	Kind   string // safety, ensures, inv.entry, inv.preserved, call.pre, decreases, lemma, assert, cover
	Func   string
	Hyps   []*Term
	Goal   *Term
	Pos    token.Position
	Text   string // human readable
	Ctx    *Ctx
	Cover  bool // expected NOT to be unsat
	Result *SolveResult
	Replay *ReplayInfo // how to run the real function (top-level functions only)
	Clause *Clause     // the postcondition, for ensures obligations
}

// mergeElemsBridge: reads of a merged element heap through at() are the reads of the branch that was taken. Implied by
// the definition of the merged heap (an ite); stated over at() so that E-matching carries element facts across the join.
func (x *Xlat) mergeElemsBridge(out *State, key string, m, cond, va, vb *Term) {
	if strings.HasPrefix(key, "MapVal$") || strings.HasPrefix(key, "MapDom$") {
		// maps: the same bridge over the raw nested selects
		k1, inner, ok := splitArrSort(m.Sort)
		if !ok {
			return
		}
		k2, _, ok := splitArrSort(inner)
		if !ok {
			return
		}
		if !x.sortKnown(m.Sort) {
			return
		}
		ab, ib := Const("a!", k1), Const("i!", k2)
		lhs := Sel(Sel(m, ab), ib)
		out.facts = append(out.facts, Forall([]Bind{{"a!", k1}, {"i!", k2}}, Eq(lhs, Ite(cond, Sel(Sel(va, ab), ib), Sel(Sel(vb, ab), ib))), []*Term{lhs}))
		return
	}
	if !strings.HasPrefix(key, "Elems$") {
		return
	}
	_, inner, ok := splitArrSort(m.Sort)
	if !ok {
		return
	}
	_, es, ok := splitArrSort(inner)
	if !ok {
		return
	}
	switch es {
	case SInt, SReal, SBool, SRef, SStr, SSlice:
	default:
		if x.ctx.dtByName[es] == nil {
			return // the element type was never materialised in this context (region known from the effect analysis only)
		}
	}
	tb, jb := Const("t!", SSlice), Const("j!", SInt)
	lhs := x.atTerm(m, tb, jb, es)
	out.facts = append(out.facts, Forall([]Bind{{"t!", SSlice}, {"j!", SInt}}, Eq(lhs, Ite(cond, x.atTerm(va, tb, jb, es), x.atTerm(vb, tb, jb, es))), []*Term{lhs}))
}

// sortKnown: every datatype mentioned by the sort has been materialised in this context.
func (x *Xlat) sortKnown(s Sort) bool {
	if k, v, ok := splitArrSort(s); ok {
		return x.sortKnown(k) && x.sortKnown(v)
	}
	switch s {
	case SInt, SReal, SBool, SRef, SStr, SSlice, SFunc, SIface:
		return true
	}
	return x.ctx.dtByName[s] != nil
}
