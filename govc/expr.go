package main

// Places (lvalues), expression evaluation, builtins.

import (
	"go/ast"
	"go/constant"
	"go/printer"
	"go/token"
	"go/types"
	"math/big"
	"strings"
)

func nodeText(fset *token.FileSet, n ast.Node) string {
	var sb strings.Builder
	printer.Fprint(&sb, fset, n)
	s := sb.String()
	s = strings.Join(strings.Fields(s), " ")
	return s
}

// ---------------------------------------------------------------------------
// Places

type Place interface{}

type PVar struct {
	key string
	typ types.Type
}

// PHeap is a (possibly nested struct) location inside a heap object ref of named struct type T.
type PHeap struct {
	ref   *Term
	T     types.Type // the heap object's struct type (named)
	names []string   // field path
	typ   types.Type // type at the path
}

type PElem struct {
	sl  *Term
	idx *Term
	typ types.Type
}

type PMapElem struct {
	m      *Term
	key    *Term
	kt, vt types.Type
}

type PField struct {
	parent Place
	styp   types.Type
	f      *types.Var
}

type PArrIdx struct {
	parent Place
	atyp   types.Type
	idx    *Term
}

// PValue is a non-addressable value (temporaries)
type PValue struct {
	v   *Term
	typ types.Type
}

func (x *Xlat) heapOf(st *State, key string, leafType types.Type) *Term {
	return x.get(st, key, x.tm.HeapSort(leafType))
}

func (x *Xlat) load(st *State, p Place) *Term {
	switch p := p.(type) {
	case PVar:
		return x.get(st, p.key, x.tm.SortOf(p.typ))
	case PValue:
		return p.v
	case PHeap:
		if s, ok := types.Unalias(p.typ).Underlying().(*types.Struct); ok {
			srt := x.tm.SortOf(p.typ)
			var args []*Term
			for i := 0; i < s.NumFields(); i++ {
				f := s.Field(i)
				if skipField(f) {
					continue
				}
				args = append(args, x.load(st, PHeap{p.ref, p.T, append(append([]string{}, p.names...), f.Name()), f.Type()}))
			}
			if len(args) == 0 {
				args = append(args, TTrue)
			}
			return App("mk_"+srt, srt, args...)
		}
		v := Sel(x.heapOf(st, fieldKey(p.T, p.names), p.typ), p.ref)
		if x.nn && x.ctx.noDefine == 0 && v.Sort == SRef && (nnField[fieldKey(p.T, p.names)] || isMapType(p.typ)) {
			st.assume(Not(Eq(v, TNull))) // A11: edge ends are never nil
		}
		return v
	case PElem:
		es := x.tm.SortOf(p.typ)
		h := x.get(st, x.tm.ElemsKey(p.typ), elemsSort(es))
		v := x.atTerm(h, p.sl, p.idx, es)
		if x.nn && x.ctx.noDefine == 0 && es == SRef && x.graphListProv(p.sl, 0) {
			st.assume(Not(Eq(v, TNull))) // A11: the graph's node, edge, layer and adjacency lists hold no nil
		}
		return v
	case PMapElem:
		ks, vs := x.tm.SortOf(p.kt), x.tm.SortOf(p.vt)
		h := x.get(st, mapValKey(ks, vs), ArrSort(SRef, ArrSort(ks, vs)))
		hd := x.get(st, mapDomKey(ks, vs), ArrSort(SRef, ArrSort(ks, SBool)))
		return Ite(Sel(Sel(hd, p.m), p.key), Sel(Sel(h, p.m), p.key), x.tm.Zero(p.vt))
	case PField:
		pv := x.load(st, p.parent)
		return x.fieldOf(pv, p.styp, p.f)
	case PArrIdx:
		pv := x.load(st, p.parent)
		return x.arrIndex(pv, p.atyp, p.idx)
	}
	panic("load: unknown place")
}

// atTerm: element i of slice s in elements heap h, through an uninterpreted accessor that serves as E-matching trigger.
func (x *Xlat) atTerm(h, s, i *Term, es Sort) *Term {
	fn := "at$" + sortId(es)
	if _, ok := x.ctx.funcs[fn]; !ok {
		hb, sb, ib := Const("h!", elemsSort(es)), Const("s!", SSlice), Const("i!", SInt)
		lhs := App(fn, es, hb, sb, ib)
		ax := Forall([]Bind{{"h!", elemsSort(es)}, {"s!", SSlice}, {"i!", SInt}},
			Eq(lhs, Sel(Sel(hb, App("s_arr", SInt, sb)), App("+", SInt, App("s_off", SInt, sb), ib))), []*Term{lhs})
		x.ctx.DeclareFunc(&FuncDecl{Name: fn, Params: []Sort{elemsSort(es), SSlice, SInt}, Ret: es, Axioms: []*Term{ax}})
	}
	return App(fn, es, h, s, i)
}

func (x *Xlat) fieldOf(v *Term, styp types.Type, f *types.Var) *Term {
	srt := x.tm.SortOf(styp)
	// constructor applied: project directly
	if v.Op == "mk_"+srt {
		s := types.Unalias(styp).Underlying().(*types.Struct)
		k := 0
		for i := 0; i < s.NumFields(); i++ {
			if skipField(s.Field(i)) {
				continue
			}
			if s.Field(i) == f {
				return v.Args[k]
			}
			k++
		}
	}
	return App(srt+"_"+f.Name(), x.tm.SortOf(f.Type()), v)
}

func (x *Xlat) arrIndex(v *Term, atyp types.Type, idx *Term) *Term {
	at := types.Unalias(atyp).Underlying().(*types.Array)
	srt := x.tm.SortOf(atyp)
	es := x.tm.SortOf(at.Elem())
	proj := func(i int64) *Term {
		if v.Op == "mk_"+srt {
			return v.Args[i]
		}
		return App(x.tm.ArrAccessor(atyp, i), es, v)
	}
	if idx.lit {
		var n int64
		for _, c := range idx.Op {
			if c >= '0' && c <= '9' {
				n = n*10 + int64(c-'0')
			}
		}
		if n < at.Len() {
			return proj(n)
		}
	}
	var t *Term = proj(at.Len() - 1)
	for i := at.Len() - 2; i >= 0; i-- {
		t = Ite(Eq(idx, IntLit(i)), proj(i), t)
	}
	return t
}

func (x *Xlat) store(st *State, out *Outcomes, p Place, v *Term, pos token.Pos) {
	switch p := p.(type) {
	case nil:
		return
	case PVar:
		x.set(st, p.key, x.coerce(v, p.typ))
		if strings.HasPrefix(p.key, "G$") {
			st.env["GW$"+p.key[2:]] = TTrue // ghost: this package-level variable has been written
		}
	case PHeap:
		if s, ok := types.Unalias(p.typ).Underlying().(*types.Struct); ok {
			for i := 0; i < s.NumFields(); i++ {
				f := s.Field(i)
				if skipField(f) {
					continue
				}
				x.store(st, out, PHeap{p.ref, p.T, append(append([]string{}, p.names...), f.Name()), f.Type()}, x.fieldOf(v, p.typ, f), pos)
			}
			return
		}
		key := fieldKey(p.T, p.names)
		h := x.heapOf(st, key, p.typ)
		x.set(st, key, Sto(h, p.ref, x.coerce(v, p.typ)))
	case PElem:
		es := x.tm.SortOf(p.typ)
		key := x.tm.ElemsKey(p.typ)
		h := x.get(st, key, elemsSort(es))
		arr := SArr(p.sl)
		inner := Sel(h, arr)
		val := x.coerce(v, p.typ)
		if len(val.Args) > 0 {
			val = x.ctx.Define("ev", val)
		}
		h2 := x.ctx.Define(key, Sto(h, arr, Sto(inner, App("+", SInt, SOff(p.sl), p.idx), val)))
		st.env[key] = h2
		// derived frame fact phrased over at() so that E-matching can move facts across the write
		tb, jb := Const("t!", SSlice), Const("j!", SInt)
		lhs := x.atTerm(h2, tb, jb, es)
		hit := And(Eq(SArr(tb), arr), Eq(App("+", SInt, SOff(tb), jb), App("+", SInt, SOff(p.sl), p.idx)))
		st.assume(Forall([]Bind{{"t!", SSlice}, {"j!", SInt}}, Eq(lhs, Ite(hit, val, x.atTerm(h, tb, jb, es))), []*Term{lhs}))
		st.assume(Eq(x.atTerm(h2, p.sl, p.idx, es), val)) // ground instance (survives quantifier-free weakenings)
	case PMapElem:
		ks, vs := x.tm.SortOf(p.kt), x.tm.SortOf(p.vt)
		x.safety(st, out, "nilmap", Not(Eq(p.m, TNull)), pos, "assignment to entry in nil map")
		vk := mapValKey(ks, vs)
		hv := x.get(st, vk, ArrSort(SRef, ArrSort(ks, vs)))
		x.set(st, vk, Sto(hv, p.m, Sto(Sel(hv, p.m), p.key, x.coerce(v, p.vt))))
		dk := mapDomKey(ks, vs)
		hd := x.get(st, dk, ArrSort(SRef, ArrSort(ks, SBool)))
		was := Sel(Sel(hd, p.m), p.key)
		hl := x.get(st, mapLenKey, ArrSort(SRef, SInt))
		x.set(st, mapLenKey, Sto(hl, p.m, Ite(was, Sel(hl, p.m), App("+", SInt, Sel(hl, p.m), IntLit(1)))))
		x.set(st, dk, Sto(hd, p.m, Sto(Sel(hd, p.m), p.key, TTrue)))
	case PField:
		pv := x.load(st, p.parent)
		x.store(st, out, p.parent, x.updField(pv, p.styp, p.f, v), pos)
	case PArrIdx:
		pv := x.load(st, p.parent)
		x.store(st, out, p.parent, x.updArr(pv, p.atyp, p.idx, v), pos)
	case PValue:
		x.note("store to non-addressable value ignored")
	default:
		panic("store: unknown place")
	}
}

func (x *Xlat) updField(pv *Term, styp types.Type, f *types.Var, v *Term) *Term {
	s := types.Unalias(styp).Underlying().(*types.Struct)
	srt := x.tm.SortOf(styp)
	var args []*Term
	for i := 0; i < s.NumFields(); i++ {
		g := s.Field(i)
		if skipField(g) {
			continue
		}
		if g == f {
			args = append(args, x.coerce(v, g.Type()))
		} else {
			args = append(args, x.fieldOf(pv, styp, g))
		}
	}
	return App("mk_"+srt, srt, args...)
}

func (x *Xlat) updArr(pv *Term, atyp types.Type, idx *Term, v *Term) *Term {
	at := types.Unalias(atyp).Underlying().(*types.Array)
	srt := x.tm.SortOf(atyp)
	var args []*Term
	for i := int64(0); i < at.Len(); i++ {
		old := x.arrIndex(pv, atyp, IntLit(i))
		args = append(args, Ite(Eq(idx, IntLit(i)), x.coerce(v, at.Elem()), old))
	}
	return App("mk_"+srt, srt, args...)
}

// place computes the lvalue of an expression.
func (x *Xlat) place(st *State, fr *Frame, out *Outcomes, e ast.Expr) Place {
	info := fr.info()
	switch e := e.(type) {
	case *ast.ParenExpr:
		return x.place(st, fr, out, e.X)
	case *ast.Ident:
		if e.Name == "_" {
			return nil
		}
		obj := info.ObjectOf(e)
		v, ok := obj.(*types.Var)
		if !ok {
			return PValue{x.eval(st, fr, out, e), info.TypeOf(e)}
		}
		if k, _, ok := fr.lookupVar(v); ok {
			return PVar{k, v.Type()}
		}
		if v.Parent() == v.Pkg().Scope() {
			return PVar{"G$" + pkgShort(v.Pkg().Path()) + "." + v.Name(), v.Type()}
		}
		if _, ok := fr.lookupRefParam(v); ok {
			// the pointer variable itself: a non-nil address we do not model further
			a := x.ctx.Named("addr$"+v.Name(), SRef)
			x.ctx.constAxioms[a.Op] = []*Term{Not(Eq(a, TNull))}
			return PValue{a, v.Type()}
		}
		// variable of an outer function not in scope chain (should not happen)
		x.unsupp(e.Pos(), "variable %s not in scope", v.Name())
	case *ast.StarExpr:
		if id, ok := e.X.(*ast.Ident); ok {
			if v, ok := info.ObjectOf(id).(*types.Var); ok {
				if p, ok := fr.lookupRefParam(v); ok {
					return p
				}
			}
		}
		pt, ok := types.Unalias(info.TypeOf(e.X)).Underlying().(*types.Pointer)
		if !ok {
			x.unsupp(e.Pos(), "deref of non-pointer")
		}
		r := x.eval(st, fr, out, e.X)
		x.safety(st, out, "nil", Not(Eq(r, TNull)), e.Pos(), "nil dereference: "+x.src(e))
		if _, ok := types.Unalias(pt.Elem()).Underlying().(*types.Struct); ok {
			return PHeap{r, pt.Elem(), nil, pt.Elem()}
		}
		return PHeap{r, pt.Elem(), []string{"val"}, pt.Elem()} // boxed cell
	case *ast.SelectorExpr:
		sel, ok := info.Selections[e]
		if !ok {
			// qualified identifier pkg.Var
			if v, ok := info.ObjectOf(e.Sel).(*types.Var); ok {
				return PVar{"G$" + pkgShort(v.Pkg().Path()) + "." + v.Name(), v.Type()}
			}
			return PValue{x.eval(st, fr, out, e), info.TypeOf(e)}
		}
		if sel.Kind() != types.FieldVal {
			x.unsupp(e.Pos(), "method value")
		}
		return x.selectPath(st, fr, out, e.X, sel.Index(), e.Pos())
	case *ast.IndexExpr:
		xt := types.Unalias(info.TypeOf(e.X)).Underlying()
		switch t := xt.(type) {
		case *types.Slice:
			sl := x.eval(st, fr, out, e.X)
			idx := x.eval(st, fr, out, e.Index)
			x.safety(st, out, "index", And(App("<=", SBool, IntLit(0), idx), App("<", SBool, idx, SLen(sl))), e.Pos(), "index out of range: "+x.src(e))
			return PElem{sl, idx, t.Elem()}
		case *types.Array:
			par := x.place(st, fr, out, e.X)
			idx := x.eval(st, fr, out, e.Index)
			x.safety(st, out, "index", And(App("<=", SBool, IntLit(0), idx), App("<", SBool, idx, IntLit(t.Len()))), e.Pos(), "array index out of range: "+x.src(e))
			return PArrIdx{par, info.TypeOf(e.X), idx}
		case *types.Map:
			m := x.eval(st, fr, out, e.X)
			k := x.coerce(x.eval(st, fr, out, e.Index), t.Key())
			return PMapElem{m, k, t.Key(), t.Elem()}
		case *types.Pointer:
			if at, ok := types.Unalias(t.Elem()).Underlying().(*types.Array); ok {
				_ = at
				x.unsupp(e.Pos(), "index through pointer to array")
			}
		}
		x.unsupp(e.Pos(), "index expression on %s", xt)
	}
	return PValue{x.eval(st, fr, out, e), info.TypeOf(e)}
}

// selectPath applies a field index path (from types.Selection) to base expression.
func (x *Xlat) selectPath(st *State, fr *Frame, out *Outcomes, base ast.Expr, path []int, pos token.Pos) Place {
	info := fr.info()
	bt := info.TypeOf(base)
	var cur Place
	curT := bt
	if id, ok := ast.Unparen(base).(*ast.Ident); ok {
		if v, ok := info.ObjectOf(id).(*types.Var); ok {
			if p, ok := fr.lookupRefParam(v); ok {
				// pointer variable bound by reference to a caller's struct
				cur = p
				curT = derefType(v.Type())
			}
		}
	}
	if cur != nil {
	} else if pt, ok := types.Unalias(bt).Underlying().(*types.Pointer); ok {
		r := x.eval(st, fr, out, base)
		x.safety(st, out, "nil", Not(Eq(r, TNull)), pos, "nil dereference: "+x.src(base))
		cur = PHeap{r, pt.Elem(), nil, pt.Elem()}
		curT = pt.Elem()
	} else {
		cur = x.place(st, fr, out, base)
	}
	for _, idx := range path {
		s, ok := types.Unalias(curT).Underlying().(*types.Struct)
		if !ok {
			// implicit deref of embedded pointer
			pt, ok := types.Unalias(curT).Underlying().(*types.Pointer)
			if !ok {
				x.unsupp(pos, "selector path through %s", curT)
			}
			r := x.load(st, cur)
			x.safety(st, out, "nil", Not(Eq(r, TNull)), pos, "nil dereference (embedded)")
			cur = PHeap{r, pt.Elem(), nil, pt.Elem()}
			curT = pt.Elem()
			s = types.Unalias(curT).Underlying().(*types.Struct)
		}
		f := s.Field(idx)
		switch c := cur.(type) {
		case PHeap:
			cur = PHeap{c.ref, c.T, append(append([]string{}, c.names...), f.Name()), f.Type()}
		default:
			cur = PField{cur, curT, f}
		}
		curT = f.Type()
	}
	return cur
}

// ---------------------------------------------------------------------------
// coercions

func (x *Xlat) coerce(v *Term, t types.Type) *Term {
	if t == nil {
		return v
	}
	return x.coerceSort(v, x.tm.SortOf(t))
}

func (x *Xlat) coerceSort(v *Term, s Sort) *Term {
	if v.Sort == s {
		return v
	}
	if v.Sort == SInt && s == SReal {
		return ToReal(v)
	}
	if v == TNull || v.Op == "null" {
		switch s {
		case SSlice:
			return NilSlice()
		case SFunc:
			return x.ctx.Named("func$nil", SFunc)
		case SIface:
			return x.ctx.Named("iface$nil", SIface)
		}
	}
	if s == SIface {
		// boxing a concrete value into an interface: uninterpreted injection
		fn := "box$" + sortId(v.Sort)
		x.ctx.DeclareFunc(&FuncDecl{Name: fn, Params: []Sort{v.Sort}, Ret: SIface})
		return App(fn, SIface, v)
	}
	return v
}

// ---------------------------------------------------------------------------
// expressions

func (x *Xlat) constTerm(tv types.TypeAndValue, t types.Type) *Term {
	v := tv.Value
	switch v.Kind() {
	case constant.Bool:
		if constant.BoolVal(v) {
			return TTrue
		}
		return TFalse
	case constant.String:
		return x.strLit(constant.StringVal(v))
	case constant.Int:
		if t != nil && isFloat(t) {
			f, _ := constant.Float64Val(v)
			return RealLit(f)
		}
		if i, ok := constant.Int64Val(v); ok {
			return IntLit(i)
		}
		if bi, ok := constant.Val(v).(*big.Int); ok {
			return BigIntLit(bi)
		}
	case constant.Float:
		if t != nil && isInteger(t) {
			if i, ok := constant.Int64Val(constant.ToInt(v)); ok {
				return IntLit(i)
			}
		}
		f, _ := constant.Float64Val(v)
		return RealLit(f)
	}
	return nil
}

func (x *Xlat) strLit(s string) *Term {
	name := "str$lit$" + sanitize(s)
	if s == "" {
		name = "str$empty"
	}
	return x.ctx.Named(name, SStr)
}

func (x *Xlat) eval(st *State, fr *Frame, out *Outcomes, e ast.Expr) *Term {
	info := fr.info()
	if tv, ok := info.Types[e]; ok && tv.Value != nil {
		if t := x.constTerm(tv, tv.Type); t != nil {
			return t
		}
	}
	switch e := e.(type) {
	case *ast.ParenExpr:
		return x.eval(st, fr, out, e.X)
	case *ast.BasicLit:
		x.unsupp(e.Pos(), "literal %s", e.Value)
	case *ast.Ident:
		if e.Name == "nil" {
			if _, ok := info.ObjectOf(e).(*types.Nil); ok {
				return TNull
			}
		}
		if e.Name == "true" || e.Name == "false" {
			if _, ok := info.ObjectOf(e).(*types.Const); ok {
				if e.Name == "true" {
					return TTrue
				}
				return TFalse
			}
		}
		switch obj := info.ObjectOf(e).(type) {
		case *types.Var:
			if _, ok := fr.lookupClosure(obj); ok {
				return x.ctx.Named("closure$"+obj.Name(), SFunc)
			}
			return x.load(st, x.place(st, fr, out, e))
		case *types.Func:
			return x.ctx.Named("func$"+funcKey(obj), SFunc)
		}
		x.unsupp(e.Pos(), "identifier %s", e.Name)
	case *ast.SelectorExpr:
		if sel, ok := info.Selections[e]; ok {
			if sel.Kind() == types.FieldVal {
				return x.load(st, x.place(st, fr, out, e))
			}
			x.unsupp(e.Pos(), "method value %s", x.src(e))
		}
		switch obj := info.ObjectOf(e.Sel).(type) {
		case *types.Var:
			return x.load(st, x.place(st, fr, out, e))
		case *types.Func:
			return x.ctx.Named("func$"+funcKey(obj), SFunc)
		}
		x.unsupp(e.Pos(), "qualified identifier %s", x.src(e))
	case *ast.StarExpr:
		return x.load(st, x.place(st, fr, out, e))
	case *ast.IndexExpr:
		// generic instantiation?
		if tv, ok := info.Types[e.X]; ok && !tv.IsValue() {
			x.unsupp(e.Pos(), "generic instantiation expression")
		}
		xt := types.Unalias(info.TypeOf(e.X)).Underlying()
		if _, ok := xt.(*types.Basic); ok { // string indexing
			x.unsupp(e.Pos(), "string indexing")
		}
		if at, ok := xt.(*types.Array); ok {
			// arrays may be non-addressable values
			av := x.eval(st, fr, out, e.X)
			idx := x.eval(st, fr, out, e.Index)
			x.safety(st, out, "index", And(App("<=", SBool, IntLit(0), idx), App("<", SBool, idx, IntLit(at.Len()))), e.Pos(), "array index out of range: "+x.src(e))
			return x.arrIndex(av, info.TypeOf(e.X), idx)
		}
		return x.load(st, x.place(st, fr, out, e))
	case *ast.UnaryExpr:
		switch e.Op {
		case token.NOT:
			return Not(x.eval(st, fr, out, e.X))
		case token.SUB:
			v := x.eval(st, fr, out, e.X)
			return App("-", v.Sort, v)
		case token.ADD:
			return x.eval(st, fr, out, e.X)
		case token.AND:
			return x.addrOf(st, fr, out, e)
		}
		x.unsupp(e.Pos(), "unary operator %s", e.Op)
	case *ast.BinaryExpr:
		switch e.Op {
		case token.LAND, token.LOR:
			l := x.evalCond(st, fr, out, e.X)
			// evaluate right operand under the short-circuit guard
			if x.isSimple(fr, e.Y) {
				st2 := st.clone()
				if e.Op == token.LAND {
					st2.guard(l)
				} else {
					st2.guard(Not(l))
				}
				o2 := &Outcomes{}
				r := x.evalCond(st2, fr, o2, e.Y)
				if o2.pan != nil {
					out.pan = x.merge(out.pan, o2.pan)
				}
				// safety conditions discovered in st2 were added as guards there; they were obliged under the guard.
				if e.Op == token.LAND {
					return And(l, r)
				}
				return Or(l, r)
			}
			// general case with effects: fork and merge
			res := x.ctx.Fresh("sc", SBool)
			st2 := st.clone()
			if e.Op == token.LAND {
				st2.guard(l)
			} else {
				st2.guard(Not(l))
			}
			r := x.evalCond(st2, fr, out, e.Y)
			st2.assume(Eq(res, r))
			if e.Op == token.LAND {
				st.guard(Not(l))
				st.assume(Eq(res, TFalse))
			} else {
				st.guard(l)
				st.assume(Eq(res, TTrue))
			}
			m := x.merge(st2, st)
			*st = *m
			return res
		}
		l := x.eval(st, fr, out, e.X)
		r := x.eval(st, fr, out, e.Y)
		lt := info.TypeOf(e.X)
		if b, ok := lt.Underlying().(*types.Basic); ok && b.Info()&types.IsUntyped != 0 {
			lt = info.TypeOf(e.Y)
		}
		return x.binop(st, out, e.Op, l, r, lt, e.Pos())
	case *ast.CallExpr:
		vs := x.evalCall(st, fr, out, e)
		if len(vs) == 0 {
			x.unsupp(e.Pos(), "call used as value returns nothing")
		}
		return vs[0]
	case *ast.CompositeLit:
		return x.compositeLit(st, fr, out, e, false)
	case *ast.SliceExpr:
		return x.sliceExpr(st, fr, out, e)
	case *ast.FuncLit:
		return x.ctx.Fresh("closure", SFunc)
	case *ast.TypeAssertExpr:
		x.unsupp(e.Pos(), "type assertion")
	case *ast.KeyValueExpr:
		x.unsupp(e.Pos(), "key-value")
	}
	x.unsupp(e.Pos(), "expression %T", e)
	return nil
}

func (x *Xlat) evalCond(st *State, fr *Frame, out *Outcomes, e ast.Expr) *Term {
	t := x.eval(st, fr, out, e)
	if t.Sort != SBool {
		x.unsupp(e.Pos(), "condition of sort %s", t.Sort)
	}
	return t
}

// isSimple: the expression has no side effects on the state other than safety guards (pure reads, inlineable pure calls).
func (x *Xlat) isSimple(fr *Frame, e ast.Expr) bool {
	simple := true
	ast.Inspect(e, func(n ast.Node) bool {
		if ce, ok := n.(*ast.CallExpr); ok {
			if !x.callIsPure(fr, ce) {
				simple = false
			}
		}
		return simple
	})
	return simple
}

func (x *Xlat) evalMulti(st *State, fr *Frame, out *Outcomes, e ast.Expr) []*Term {
	info := fr.info()
	switch e := e.(type) {
	case *ast.ParenExpr:
		return x.evalMulti(st, fr, out, e.X)
	case *ast.CallExpr:
		return x.evalCall(st, fr, out, e)
	case *ast.IndexExpr:
		// v, ok := m[k]
		if mt, ok := types.Unalias(info.TypeOf(e.X)).Underlying().(*types.Map); ok {
			m := x.eval(st, fr, out, e.X)
			k := x.coerce(x.eval(st, fr, out, e.Index), mt.Key())
			v := x.load(st, PMapElem{m, k, mt.Key(), mt.Elem()})
			ks := x.tm.SortOf(mt.Key())
			hd := x.get(st, mapDomKey(ks, x.tm.SortOf(mt.Elem())), ArrSort(SRef, ArrSort(ks, SBool)))
			return []*Term{v, Sel(Sel(hd, m), k)}
		}
	}
	x.unsupp(e.Pos(), "multi-value expression %T", e)
	return nil
}

func (x *Xlat) binop(st *State, out *Outcomes, op token.Token, l, r *Term, t types.Type, pos token.Pos) *Term {
	if l.Sort != r.Sort {
		// comparisons with nil
		if l.Op == "null" && l.Sort == SRef {
			l, r = r, l
		}
		if r.Op == "null" && r.Sort == SRef {
			if l.Sort == SSlice {
				c := Eq(SArr(l), IntLit(0))
				if op == token.NEQ {
					return Not(c)
				}
				return c
			}
			r = x.coerceSort(r, l.Sort)
		}
		l, r = coerce2(l, r)
	}
	switch op {
	case token.ADD:
		if l.Sort == SStr {
			x.ctx.DeclareFunc(&FuncDecl{Name: "str_concat", Params: []Sort{SStr, SStr}, Ret: SStr})
			return App("str_concat", SStr, l, r)
		}
		return App("+", l.Sort, l, r)
	case token.SUB:
		return App("-", l.Sort, l, r)
	case token.MUL:
		return App("*", l.Sort, l, r)
	case token.QUO:
		if l.Sort == SReal {
			return App("/", SReal, l, r)
		}
		x.safety(st, out, "div", Not(Eq(r, IntLit(0))), pos, "integer division by zero")
		return goDiv(l, r)
	case token.REM:
		x.safety(st, out, "div", Not(Eq(r, IntLit(0))), pos, "integer modulo by zero")
		return App("-", SInt, l, App("*", SInt, r, goDiv(l, r)))
	case token.EQL:
		return Eq(l, r)
	case token.NEQ:
		return Not(Eq(l, r))
	case token.LSS:
		return App("<", SBool, l, r)
	case token.LEQ:
		return App("<=", SBool, l, r)
	case token.GTR:
		return App(">", SBool, l, r)
	case token.GEQ:
		return App(">=", SBool, l, r)
	case token.SHL, token.SHR, token.AND, token.OR, token.XOR, token.AND_NOT:
		fn := "bitop_" + map[token.Token]string{token.SHL: "shl", token.SHR: "shr", token.AND: "and", token.OR: "or", token.XOR: "xor", token.AND_NOT: "andnot"}[op]
		x.ctx.DeclareFunc(&FuncDecl{Name: fn, Params: []Sort{SInt, SInt}, Ret: SInt})
		x.models["bit operation " + op.String() + " (uninterpreted in Int mode)"] = true
		return App(fn, SInt, l, r)
	}
	x.unsupp(pos, "binary operator %s", op)
	return nil
}

// goDiv: Go integer division truncates toward zero.
func goDiv(a, b *Term) *Term {
	if b.lit && !strings.HasPrefix(b.Op, "(-") && a.lit && !strings.HasPrefix(a.Op, "(-") {
		return App("div", SInt, a, b)
	}
	return Ite(App(">=", SBool, a, IntLit(0)), App("div", SInt, a, b), App("-", SInt, App("div", SInt, App("-", SInt, a), b)))
}

func (x *Xlat) sliceExpr(st *State, fr *Frame, out *Outcomes, e *ast.SliceExpr) *Term {
	info := fr.info()
	xt := types.Unalias(info.TypeOf(e.X)).Underlying()
	if _, ok := xt.(*types.Slice); !ok {
		x.unsupp(e.Pos(), "slice expression on %s", xt)
	}
	s := x.eval(st, fr, out, e.X)
	lo := IntLit(0)
	if e.Low != nil {
		lo = x.eval(st, fr, out, e.Low)
	}
	var hi *Term = SLen(s)
	if e.High != nil {
		hi = x.eval(st, fr, out, e.High)
	}
	var mx *Term = SCap(s)
	if e.Max != nil {
		mx = x.eval(st, fr, out, e.Max)
	}
	x.safety(st, out, "slice", And(App("<=", SBool, IntLit(0), lo), App("<=", SBool, lo, hi), App("<=", SBool, hi, mx), App("<=", SBool, mx, SCap(s))), e.Pos(), "slice bounds out of range: "+x.src(e))
	return MkSlice(SArr(s), App("+", SInt, SOff(s), lo), App("-", SInt, hi, lo), App("-", SInt, mx, lo))
}

// allocation ---------------------------------------------------------------

func (x *Xlat) allocRef(st *State, base string, t types.Type) *Term {
	r := x.ctx.Fresh(base, SRef)
	if t != nil {
		if tag := x.typeTag(t); tag != nil {
			st.assume(Eq(App("dtype", SInt, r), tag))
		}
	}
	al := x.get(st, allocKey, ArrSort(SRef, SBool))
	st.assume(Not(Sel(al, r)))
	st.assume(Not(Eq(r, TNull)))
	x.set(st, allocKey, Sto(al, r, TTrue))
	return r
}

func (x *Xlat) allocArr(st *State) *Term {
	a := x.ctx.Fresh("arr", SInt)
	al := x.get(st, arrAllocKey, ArrSort(SInt, SBool))
	st.assume(Not(Sel(al, a)))
	st.assume(Not(Eq(a, IntLit(0))))
	x.set(st, arrAllocKey, Sto(al, a, TTrue))
	return a
}

func (x *Xlat) addrOf(st *State, fr *Frame, out *Outcomes, e *ast.UnaryExpr) *Term {
	if cl, ok := e.X.(*ast.CompositeLit); ok {
		return x.compositeLit(st, fr, out, cl, true)
	}
	x.unsupp(e.Pos(), "address-of %s (only &T{...} and reference arguments are supported)", x.src(e.X))
	return nil
}

func (x *Xlat) compositeLit(st *State, fr *Frame, out *Outcomes, e *ast.CompositeLit, addr bool) *Term {
	info := fr.info()
	t := info.TypeOf(e)
	switch u := types.Unalias(t).Underlying().(type) {
	case *types.Struct:
		vals := map[*types.Var]*Term{}
		for i, el := range e.Elts {
			if kv, ok := el.(*ast.KeyValueExpr); ok {
				id := kv.Key.(*ast.Ident)
				// find the field (may be embedded struct name)
				var f *types.Var
				for j := 0; j < u.NumFields(); j++ {
					if u.Field(j).Name() == id.Name {
						f = u.Field(j)
					}
				}
				if f == nil {
					x.unsupp(kv.Pos(), "unknown field %s", id.Name)
				}
				if _, isFn := kv.Value.(*ast.FuncLit); isFn {
					vals[f] = x.ctx.Fresh("closure", SFunc)
					continue
				}
				vals[f] = x.coerce(x.evalElt(st, fr, out, kv.Value, f.Type()), f.Type())
			} else {
				f := u.Field(i)
				vals[f] = x.coerce(x.evalElt(st, fr, out, el, f.Type()), f.Type())
			}
		}
		srt := x.tm.SortOf(t)
		var args []*Term
		for j := 0; j < u.NumFields(); j++ {
			f := u.Field(j)
			if skipField(f) {
				continue
			}
			if v, ok := vals[f]; ok {
				args = append(args, v)
			} else {
				args = append(args, x.tm.Zero(f.Type()))
			}
		}
		if len(args) == 0 {
			args = append(args, TTrue)
		}
		val := App("mk_"+srt, srt, args...)
		if !addr {
			return val
		}
		r := x.allocRef(st, "new$"+sanitize(typeName(t)), types.NewPointer(t))
		x.store(st, out, PHeap{r, t, nil, t}, val, e.Pos())
		return r
	case *types.Array:
		var args []*Term
		for i := int64(0); i < u.Len(); i++ {
			if int(i) < len(e.Elts) {
				el := e.Elts[i]
				if kv, ok := el.(*ast.KeyValueExpr); ok {
					el = kv.Value
				}
				args = append(args, x.coerce(x.evalElt(st, fr, out, el, u.Elem()), u.Elem()))
			} else {
				args = append(args, x.tm.Zero(u.Elem()))
			}
		}
		srt := x.tm.SortOf(t)
		return App("mk_"+srt, srt, args...)
	case *types.Slice:
		n := int64(len(e.Elts))
		if n == 0 {
			// empty non-nil slice: distinct array id irrelevant; len 0
			a := x.allocArr(st)
			return MkSlice(a, IntLit(0), IntLit(0), IntLit(0))
		}
		a := x.allocArr(st)
		es := x.tm.SortOf(u.Elem())
		key := x.tm.ElemsKey(u.Elem())
		h := x.get(st, key, elemsSort(es))
		inner := Sel(h, a)
		var vals []*Term
		for i, el := range e.Elts {
			if kv, ok := el.(*ast.KeyValueExpr); ok {
				el = kv.Value
			}
			v := x.coerce(x.evalElt(st, fr, out, el, u.Elem()), u.Elem())
			if len(v.Args) > 0 {
				v = x.ctx.Define("elt", v)
			}
			vals = append(vals, v)
			inner = Sto(inner, IntLit(int64(i)), v)
		}
		h = x.get(st, key, elemsSort(es)) // element evaluation may have changed it
		h2 := x.setElems(st, key, es, h, Sto(h, a, inner), touchedArr(a))
		res := MkSlice(a, IntLit(0), IntLit(n), IntLit(n))
		for i, v := range vals {
			st.assume(Eq(x.atTerm(h2, res, IntLit(int64(i)), es), v))
		}
		return res
	case *types.Map:
		m := x.allocRef(st, "map", t)
		x.initMap(st, m, u)
		for _, el := range e.Elts {
			kv := el.(*ast.KeyValueExpr)
			k := x.coerce(x.evalElt(st, fr, out, kv.Key, u.Key()), u.Key())
			v := x.coerce(x.evalElt(st, fr, out, kv.Value, u.Elem()), u.Elem())
			x.store(st, out, PMapElem{m, k, u.Key(), u.Elem()}, v, e.Pos())
		}
		return m
	}
	x.unsupp(e.Pos(), "composite literal of %s", t)
	return nil
}

// evalElt evaluates a composite literal element whose type may be elided.
func (x *Xlat) evalElt(st *State, fr *Frame, out *Outcomes, e ast.Expr, t types.Type) *Term {
	if cl, ok := e.(*ast.CompositeLit); ok && cl.Type == nil {
		// elided type: &T{} if pointer
		if _, isPtr := types.Unalias(t).Underlying().(*types.Pointer); isPtr {
			return x.compositeLit(st, fr, out, cl, true)
		}
	}
	return x.eval(st, fr, out, e)
}

func (x *Xlat) initMap(st *State, m *Term, mt *types.Map) {
	ks, vs := x.tm.SortOf(mt.Key()), x.tm.SortOf(mt.Elem())
	dk := mapDomKey(ks, vs)
	hd := x.get(st, dk, ArrSort(SRef, ArrSort(ks, SBool)))
	empty := App("(as const "+ArrSort(ks, SBool)+")", ArrSort(ks, SBool), TFalse)
	x.set(st, dk, Sto(hd, m, empty))
	vk := mapValKey(ks, vs)
	hv := x.get(st, vk, ArrSort(SRef, ArrSort(ks, vs)))
	zero := x.tm.Zero(mt.Elem())
	x.set(st, vk, Sto(hv, m, App("(as const "+ArrSort(ks, vs)+")", ArrSort(ks, vs), zero)))
	hl := x.get(st, mapLenKey, ArrSort(SRef, SInt))
	x.set(st, mapLenKey, Sto(hl, m, IntLit(0)))
}

// A11 (view C01): non-nil discipline of the graph structure. Established by Populate (proved: every edge and node it
// lists is non-nil with non-nil ends) and by the code that extends the lists (breakEdge, phase2.Alg.Process,
// subgraph); assumed wherever a value is read from one of these places.
var nnField = map[string]bool{"H$graph.Edge.edge.From": true, "H$graph.Edge.edge.To": true}

var nnListPrefix = []string{"H$graph.DGraph.Nodes", "H$graph.DGraph.Edges", "H$graph.DGraph.Layers", "H$graph.Node.In", "H$graph.Node.Out", "H$graph.Layer.Nodes"}

// graphListProv: the slice value was read from one of the graph's list fields (possibly through definitions, merges,
// range snapshots or re-slicing).
func (x *Xlat) graphListProv(t *Term, depth int) bool {
	if depth > 8 {
		return false
	}
	if len(t.Args) == 0 {
		if d, ok := x.ctx.defs[t.Op]; ok {
			return x.graphListProv(d, depth+1)
		}
		return false
	}
	switch t.Op {
	case "select":
		h := t.Args[0]
		for len(h.Args) > 0 && (h.Op == "store" || h.Op == "ite") {
			if h.Op == "store" {
				h = h.Args[0]
			} else {
				h = h.Args[1]
			}
		}
		name := h.Op
		if d, ok := x.ctx.defs[name]; ok && len(h.Args) == 0 {
			// defined heap version: H$...!k names keep the region prefix
			_ = d
		}
		for _, p := range nnListPrefix {
			if strings.HasPrefix(name, sanitize(p)) || strings.HasPrefix(name, "m$"+sanitize(p)) {
				return true
			}
		}
		return false
	case "ite":
		return x.graphListProv(t.Args[1], depth+1) && x.graphListProv(t.Args[2], depth+1)
	case "mk_Slice":
		// re-slicing keeps the array: s_arr(X)
		a := t.Args[0]
		if a.Op == "s_arr" && len(a.Args) == 1 {
			return x.graphListProv(a.Args[0], depth+1)
		}
	}
	return false
}

func isMapType(t types.Type) bool {
	_, ok := t.Underlying().(*types.Map)
	return ok
}
