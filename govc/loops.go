package main

// Loops: cut at invariants.

import (
	"go/constant"
	"fmt"
	"go/ast"
	"go/token"
	"go/types"
	"strings"
)

// loopKey computes the header key text of a loop.
func loopHeaderText(x *Xlat, n ast.Node) string {
	switch s := n.(type) {
	case *ast.RangeStmt:
		return "range(" + strings.ReplaceAll(x.src(s.X), " ", "") + ")"
	case *ast.ForStmt:
		if s.Cond == nil {
			return "for()"
		}
		return "for(" + strings.ReplaceAll(x.src(s.Cond), " ", "") + ")"
	}
	return "?"
}

// loopSpecFor finds the loop spec of a loop node within the function that syntactically contains it.
func (x *Xlat) loopSpecFor(fr *Frame, n ast.Node) (*LoopSpec, string) {
	fi := fr.fi
	if fi == nil {
		return nil, "?"
	}
	// compute occurrence number of this header text within fi.Decl
	hdr := loopHeaderText(x, n)
	occ := 0
	found := 0
	ast.Inspect(fi.Decl, func(m ast.Node) bool {
		switch m.(type) {
		case *ast.RangeStmt, *ast.ForStmt:
			if loopHeaderText(x, m) == hdr {
				occ++
				if m == n {
					found = occ
				}
			}
		}
		return true
	})
	key := fmt.Sprintf("%s#%d", hdr, found)
	if fi.Spec != nil {
		for _, ls := range fi.Spec.Loops {
			if ls.Key == key || (found == 1 && occ == 1 && ls.Key == hdr) {
				ls.Matched = true
				return ls, key
			}
		}
	}
	return nil, key
}

func (x *Xlat) ghostKey(fr *Frame, name string) string {
	return fmt.Sprintf("g$%d$%s", fr.id, name)
}

func (x *Xlat) havocLoop(st *State, fr *Frame, out *Outcomes, nodes ...ast.Node) (keys []string) {
	if x.lock != nil {
		x.lockHavocOK = true
		defer func() { x.lockHavocOK = false }()
	}
	for _, n := range nodes {
		if n == nil {
			continue
		}
		ef := x.eff.OfNode(fr.pkg, fr.fi, n)
		for _, k := range sortedKeys(ef.regions) {
			x.havocRegion(st, k)
			keys = append(keys, k)
		}
		for _, v := range sortedVars(ef.assigned) {
			if k, _, ok := fr.lookupVar(v); ok {
				if _, ok := st.env[k]; ok {
					st.env[k] = x.freshTyped(st, k, v.Type())
					x.lockCouple(st.env[k])
					keys = append(keys, k)
				}
			}
		}
		for _, v := range sortedVars(ef.refVars) {
			if p, ok := fr.lookupRefParam(v); ok {
				x.havocPlace(st, out, p, n.Pos())
			}
		}
		// calls through closure-bound variables (function parameters bound to a caller's function literal):
		// the literal's effects, including assignments to the variables it captured, happen in this loop too
		x.havocBoundClosureCalls(st, fr, n, map[*ast.FuncLit]bool{})
	}
	// values held in local variables point to allocated objects / arrays (or are nil)
	for _, k := range keys {
		if v, ok := st.env[k]; ok && strings.HasPrefix(k, "v$") {
			if f := x.allocFacts(st, v, 0); !f.IsTrue() {
				st.assume(f)
			}
		}
	}
	return keys
}

func (x *Xlat) allocFacts(st *State, v *Term, depth int) *Term {
	switch {
	case v.Sort == SSlice:
		return Or(Eq(SArr(v), IntLit(0)), Sel(x.get(st, arrAllocKey, ArrSort(SInt, SBool)), SArr(v)))
	case v.Sort == SRef:
		return Or(Eq(v, TNull), Sel(x.get(st, allocKey, ArrSort(SRef, SBool)), v))
	}
	d := x.ctx.dtByName[v.Sort]
	if d == nil || depth > 3 {
		return TTrue
	}
	var cs []*Term
	for _, f := range d.Fields {
		if f.Sort == v.Sort {
			continue
		}
		if c := x.allocFacts(st, App(f.Name, f.Sort, v), depth+1); !c.IsTrue() {
			cs = append(cs, c)
		}
	}
	if len(cs) == 0 {
		return TTrue
	}
	return And(cs...)
}

func (x *Xlat) havocBoundClosureCalls(st *State, fr *Frame, n ast.Node, seen map[*ast.FuncLit]bool) {
	info := fr.info()
	ast.Inspect(n, func(nd ast.Node) bool {
		ce, ok := nd.(*ast.CallExpr)
		if !ok {
			return true
		}
		var ids []*ast.Ident
		if id, ok := ast.Unparen(ce.Fun).(*ast.Ident); ok {
			ids = append(ids, id)
		}
		for _, a := range ce.Args {
			if id, ok := ast.Unparen(a).(*ast.Ident); ok {
				ids = append(ids, id)
			}
		}
		for _, id := range ids {
			v, ok := info.ObjectOf(id).(*types.Var)
			if !ok {
				continue
			}
			c, ok := fr.lookupClosure(v)
			if !ok || seen[c.lit] {
				continue
			}
			seen[c.lit] = true
			x.havocClosureEffects(st, c)
			// the literal may in turn call closures bound in its own defining frame
			sub := *c.frame
			x.havocBoundClosureCalls(st, &sub, c.lit.Body, seen)
		}
		return true
	})
}

type loopCtx struct {
	spec   *LoopSpec
	key    string
	prefix string // obligation name prefix
}

func (x *Xlat) loopBegin(st *State, fr *Frame, n ast.Node) *loopCtx {
	spec, key := x.loopSpecFor(fr, n)
	lc := &loopCtx{spec: spec, key: key}
	fn := x.curFunc
	if fr.fi != nil && fr.fi.Key != x.curFunc {
		fn = x.curFunc + "/inl:" + fr.fi.Key
	}
	lc.prefix = fmt.Sprintf("%s/loop[%s]", fn, key)
	if c := x.bump("loopinst:" + lc.prefix); c > 1 {
		lc.prefix = fmt.Sprintf("%s@%d", lc.prefix, c)
	}
	return lc
}

func (x *Xlat) loopInvs(st *State, fr *Frame, lc *loopCtx, n ast.Node, phase string, assume bool) {
	if lc.spec == nil {
		// no annotation on this loop: the head is still covered when the function under verification has preconditions
		// (not for loops of inlined callees: with the caller's constant arguments such a loop can be legitimately unreachable)
		if assume && !st.dead() && x.lock == nil && x.fi != nil && x.fi.Spec != nil && len(x.fi.Spec.Requires) > 0 && (fr.fi == nil || fr.fi.Key == x.curFunc) {
			o := x.emit(st, lc.prefix+".cover.head", "cover", TFalse, n.Pos(), "loop head is reachable (must NOT be unsat)")
			o.Cover = true
		}
		return
	}
	env := x.newSpecEnvFrame(st, fr, n.Pos())
	assumed := 0
	defer func() {
		// vacuity guard: with the invariants assumed the loop head must still be reachable. An unsatisfiable head (a
		// contradictory invariant or precondition, an inconsistency introduced by the encoding) would make every
		// obligation of the body trivially provable.
		if assume && assumed > 0 && !st.dead() && x.lock == nil && (fr.fi == nil || fr.fi.Key == x.curFunc) {
			o := x.emit(st, lc.prefix+".cover.head", "cover", TFalse, n.Pos(), "loop head is reachable under the invariants (must NOT be unsat)")
			o.Cover = true
		}
	}()
	for i, inv := range lc.spec.Invs {
		if !inv.inView(x.view) {
			continue
		}
		g := env.evalBool(inv.Expr)
		if assume {
			st.assume(g)
			assumed++
		} else {
			nm := fmt.Sprintf("%s.inv.%d.%s", lc.prefix, i+1, phase)
			if inv.Name != "" {
				nm = fmt.Sprintf("%s.inv[%s].%s", lc.prefix, inv.Name, phase)
			}
			x.emit(st, nm, "inv."+phase, g, n.Pos(), "loop invariant "+phase+": "+inv.Text)
			st.assume(g)
		}
	}
}

func (x *Xlat) loopMeasure(st *State, fr *Frame, lc *loopCtx, n ast.Node) *Term {
	if lc.spec == nil || lc.spec.Decr == nil {
		return nil
	}
	env := x.newSpecEnvFrame(st, fr, n.Pos())
	v := env.eval(lc.spec.Decr.Expr)
	return x.ctx.Define("measure", v.t)
}

func (x *Xlat) execFor(st *State, fr *Frame, s *ast.ForStmt, label string) *Outcomes {
	out := &Outcomes{}
	if s.Init != nil {
		o := x.execStmt(st, fr, s.Init)
		x.absorb(out, o)
		st = o.normal
		if st == nil {
			return out
		}
	}
	lc := x.loopBegin(st, fr, s)
	fr.loopEntry = append(fr.loopEntry, st.clone())
	defer func() { fr.loopEntry = fr.loopEntry[:len(fr.loopEntry)-1] }()
	x.loopInvs(st, fr, lc, s, "entry", false)
	cntID, cntDir, cntInit := x.monotoneCounter(st, fr, s)
	hkeys := x.havocLoop(st, fr, out, s.Body, s.Post, condNode(s.Cond))
	if cntID != nil {
		// derived invariant (no annotation): a counter that is only stepped by the post statement never passes its initial value
		cur := x.eval(st, fr, out, cntID)
		if cntDir > 0 {
			st.assume(App(">=", SBool, cur, cntInit))
		} else {
			st.assume(App("<=", SBool, cur, cntInit))
		}
	}
	x.loopInvs(st, fr, lc, s, "", true)
	var c *Term = TTrue
	if s.Cond != nil {
		c = x.evalCond(st, fr, out, s.Cond)
		x.lockBranch(st, c, s.Cond.Pos(), "for "+x.src(s.Cond))
	}
	exitSt := st.clone()
	exitSt.guard(Not(c))
	st.guard(c)
	m0 := x.loopMeasure(st, fr, lc, s)
	o := x.execBlock(st, fr, s.Body.List)
	end := x.merge(o.normal, o.cont[""])
	if label != "" {
		end = x.merge(end, o.cont[label])
	}
	if end != nil && !end.dead() {
		if s.Post != nil {
			po := x.execStmt(end, fr, s.Post)
			x.absorb(out, po)
			end = po.normal
		}
		if end != nil {
			x.loopInvs(end, fr, lc, s, "preserved", false)
			x.lockState(end, hkeys, "loop", s.Pos())
			if m0 != nil {
				m1 := x.loopMeasure(end, fr, lc, s)
				x.emit(end, lc.prefix+".decreases", "decreases", And(App(">=", SBool, m0, zeroOf(m0.Sort)), App("<", SBool, m1, m0)), s.Pos(), "loop measure decreases and is bounded below: "+lc.spec.Decr.Text)
			}
		}
	}
	exit := x.merge(exitSt, o.brk[""])
	if label != "" {
		exit = x.merge(exit, o.brk[label])
	}
	delete(o.brk, "")
	delete(o.cont, "")
	if label != "" {
		delete(o.brk, label)
		delete(o.cont, label)
	}
	o.normal = nil
	x.absorb(out, o)
	out.normal = exit
	return out
}

func zeroOf(s Sort) *Term {
	if s == SReal {
		return RealLit(0)
	}
	return IntLit(0)
}

func condNode(e ast.Expr) ast.Node {
	if e == nil {
		return nil
	}
	return e
}

func (x *Xlat) execRange(st *State, fr *Frame, s *ast.RangeStmt, label string) *Outcomes {
	info := fr.info()
	out := &Outcomes{}
	xt := types.Unalias(info.TypeOf(s.X)).Underlying()
	kind := ""
	var elemT, keyT types.Type
	var seqSlice *Term
	backward := false
	var rng *Term // slice snapshot / int bound / map ref
	switch t := xt.(type) {
	case *types.Slice:
		kind = "slice"
		elemT = t.Elem()
		rng = x.ctx.Define("rng", x.eval(st, fr, out, s.X))
	case *types.Basic:
		if t.Info()&types.IsInteger != 0 {
			kind = "int"
			rng = x.ctx.Define("rngn", x.eval(st, fr, out, s.X))
		}
	case *types.Array:
		kind = "array"
		elemT = t.Elem()
		rng = x.ctx.Define("rnga", x.eval(st, fr, out, s.X))
	case *types.Map:
		kind = "map"
		keyT, elemT = t.Key(), t.Elem()
		rng = x.eval(st, fr, out, s.X)
	case *types.Signature:
		// range over function: slices.Backward / slices.Values are modelled as index walks
		if ce, ok := ast.Unparen(s.X).(*ast.CallExpr); ok {
			if se, ok := ast.Unparen(ce.Fun).(*ast.SelectorExpr); ok {
				if fn, ok := info.Uses[se.Sel].(*types.Func); ok && fn.Pkg() != nil && fn.Pkg().Path() == "slices" {
					switch fn.Name() {
					case "Backward", "Values", "All":
						at := types.Unalias(info.TypeOf(ce.Args[0])).Underlying().(*types.Slice)
						kind = "slice"
						elemT = at.Elem()
						backward = fn.Name() == "Backward"
						rng = x.ctx.Define("rng", x.eval(st, fr, out, ce.Args[0]))
						x.models["slices."+fn.Name()+" modelled as an index walk with live element reads (A5)"] = true
						if fn.Name() == "Values" {
							kind = "slicevalues"
						}
					}
				}
			}
			if kind == "" {
				return x.execRangeFunc(st, fr, s, label, ce)
			}
		}
	}
	_ = seqSlice
	if kind == "" {
		x.unsupp(s.Pos(), "range over %s", xt)
	}
	lc := x.loopBegin(st, fr, s)
	idxName := "#idx"
	if lc.spec != nil && lc.spec.Index != "" {
		idxName = lc.spec.Index
	}
	gk := x.ghostKey(fr, idxName+"@"+fmt.Sprint(int(s.Pos())))
	oldGhost, hadGhost := fr.ghost[idxName]
	fr.ghost[idxName] = gk
	defer func() {
		if hadGhost && idxName == "#idx" {
			fr.ghost[idxName] = oldGhost
		}
	}()
	fr.loopEntry = append(fr.loopEntry, st.clone())
	defer func() { fr.loopEntry = fr.loopEntry[:len(fr.loopEntry)-1] }()

	if kind == "map" {
		return x.execRangeMap(st, fr, s, label, lc, gk, rng, keyT, elemT, out)
	}

	var n *Term
	if kind == "int" {
		n = rng
	} else if kind == "array" {
		n = IntLit(types.Unalias(info.TypeOf(s.X)).Underlying().(*types.Array).Len())
	} else {
		n = SLen(rng)
		if f := x.typeFacts(rng, types.NewSlice(elemT)); !f.IsTrue() {
			st.assume(f)
		}
	}
	// entry
	st.env[gk] = IntLit(0)
	x.loopInvs(st, fr, lc, s, "entry", false)
	hkeys := x.havocLoop(st, fr, out, s.Body)
	idx := x.ctx.Fresh("idx", SInt)
	st.env[gk] = idx
	st.assume(And(App("<=", SBool, IntLit(0), idx), App("<=", SBool, idx, n)))
	x.loopInvs(st, fr, lc, s, "", true)
	exitSt := st.clone()
	exitSt.guard(App(">=", SBool, idx, n))
	st.guard(App("<", SBool, idx, n))
	// bind key / value
	var pos *Term = idx
	if backward {
		pos = App("-", SInt, App("-", SInt, n, IntLit(1)), idx)
	}
	bind := func(e ast.Expr, v *Term, t types.Type) {
		if e == nil {
			return
		}
		id, ok := e.(*ast.Ident)
		if ok && id.Name == "_" {
			return
		}
		if ok && s.Tok == token.DEFINE {
			if d, ok := info.Defs[id].(*types.Var); ok {
				x.declVar(st, fr, d, x.coerce(v, d.Type()))
				return
			}
		}
		x.store(st, out, x.place(st, fr, out, e), v, e.Pos())
	}
	switch kind {
	case "int":
		bind(s.Key, pos, types.Typ[types.Int])
	case "array":
		bind(s.Key, pos, types.Typ[types.Int])
		if s.Value != nil {
			bind(s.Value, x.arrIndex(rng, info.TypeOf(s.X), pos), elemT)
		}
	case "slicevalues":
		bind(s.Key, x.load(st, PElem{rng, pos, elemT}), elemT)
	default:
		bind(s.Key, pos, types.Typ[types.Int])
		if s.Value != nil {
			bind(s.Value, x.load(st, PElem{rng, pos, elemT}), elemT)
		}
	}
	o := x.execBlock(st, fr, s.Body.List)
	end := x.merge(o.normal, o.cont[""])
	if label != "" {
		end = x.merge(end, o.cont[label])
	}
	if end != nil && !end.dead() {
		end.env[gk] = App("+", SInt, idx, IntLit(1))
		x.loopInvs(end, fr, lc, s, "preserved", false)
		x.lockState(end, hkeys, "loop", s.Pos())
	}
	exit := x.merge(exitSt, o.brk[""])
	if label != "" {
		exit = x.merge(exit, o.brk[label])
	}
	delete(o.brk, "")
	delete(o.cont, "")
	if label != "" {
		delete(o.brk, label)
		delete(o.cont, label)
	}
	o.normal = nil
	x.absorb(out, o)
	out.normal = exit
	return out
}

// execRangeMap: arbitrary iteration order. The ghost "index" is a set of visited keys.
func (x *Xlat) execRangeMap(st *State, fr *Frame, s *ast.RangeStmt, label string, lc *loopCtx, gk string, m *Term, keyT, elemT types.Type, out *Outcomes) *Outcomes {
	info := fr.info()
	ks := x.tm.SortOf(keyT)
	setSort := ArrSort(ks, SBool)
	// visited set, initially empty
	st.env[gk] = App("(as const "+setSort+")", setSort, TFalse)
	x.loopInvs(st, fr, lc, s, "entry", false)
	hkeys := x.havocLoop(st, fr, out, s.Body)
	seen := x.ctx.Fresh("seen", setSort)
	st.env[gk] = seen
	domH := x.get(st, mapDomKey(ks, x.tm.SortOf(elemT)), ArrSort(SRef, ArrSort(ks, SBool)))
	dom := Sel(domH, m)
	kb := Const("k!", ks)
	// visited keys are in the domain
	st.assume(Forall([]Bind{{"k!", ks}}, Imp(Sel(seen, kb), Sel(dom, kb))))
	x.loopInvs(st, fr, lc, s, "", true)
	exitSt := st.clone()
	exitSt.assume(Or(Eq(m, TNull), Forall([]Bind{{"k!", ks}}, Imp(Sel(dom, kb), Sel(seen, kb)))))
	k := x.ctx.Fresh("key", ks)
	st.guard(Not(Eq(m, TNull)))
	st.guard(And(Sel(dom, k), Not(Sel(seen, k))))
	bind := func(e ast.Expr, v *Term) {
		if e == nil {
			return
		}
		id, ok := e.(*ast.Ident)
		if ok && id.Name == "_" {
			return
		}
		if ok && s.Tok == token.DEFINE {
			if d, ok := info.Defs[id].(*types.Var); ok {
				x.declVar(st, fr, d, x.coerce(v, d.Type()))
				return
			}
		}
		x.store(st, out, x.place(st, fr, out, e), v, e.Pos())
	}
	bind(s.Key, k)
	if s.Value != nil {
		bind(s.Value, x.load(st, PMapElem{m, k, keyT, elemT}))
	}
	o := x.execBlock(st, fr, s.Body.List)
	end := x.merge(o.normal, o.cont[""])
	if label != "" {
		end = x.merge(end, o.cont[label])
	}
	if end != nil && !end.dead() {
		end.env[gk] = Sto(seen, k, TTrue)
		x.loopInvs(end, fr, lc, s, "preserved", false)
		x.lockState(end, hkeys, "loop", s.Pos())
	}
	exit := x.merge(exitSt, o.brk[""])
	if label != "" {
		exit = x.merge(exit, o.brk[label])
	}
	delete(o.brk, "")
	delete(o.cont, "")
	if label != "" {
		delete(o.brk, label)
		delete(o.cont, label)
	}
	o.normal = nil
	x.absorb(out, o)
	out.normal = exit
	return out
}

// execRangeFunc: range over a module iterator function (g.Sources(), n.allEdges()).
// The iterator body is inlined with the loop body as the yield function when the iterator is a
// function literal returned directly; the yield call is treated as an opaque step: we havoc what the
// loop body may write and execute the body once from an arbitrary iteration state (no invariant).
func (x *Xlat) execRangeFunc(st *State, fr *Frame, s *ast.RangeStmt, label string, ce *ast.CallExpr) *Outcomes {
	info := fr.info()
	out := &Outcomes{}
	// evaluate the iterator call operands for safety
	var recvExpr ast.Expr
	if se, ok := ast.Unparen(ce.Fun).(*ast.SelectorExpr); ok {
		if sel, ok := info.Selections[se]; ok && sel.Kind() == types.MethodVal {
			recvExpr = se.X
		}
	}
	if recvExpr != nil {
		x.eval(st, fr, out, recvExpr)
	}
	lc := x.loopBegin(st, fr, s)
	fr.loopEntry = append(fr.loopEntry, st.clone())
	defer func() { fr.loopEntry = fr.loopEntry[:len(fr.loopEntry)-1] }()
	x.loopInvs(st, fr, lc, s, "entry", false)
	hkeys := x.havocLoop(st, fr, out, s.Body)
	x.loopInvs(st, fr, lc, s, "", true)
	exitSt := st.clone()
	// the yielded value: arbitrary value of the element type (over-approximation of the iterator)
	sig := types.Unalias(info.TypeOf(s.X)).Underlying().(*types.Signature)
	ysig := types.Unalias(sig.Params().At(0).Type()).Underlying().(*types.Signature)
	x.models["range over "+x.src(ce.Fun)+"(): yielded values over-approximated by arbitrary non-nil values"] = true
	vals := []ast.Expr{s.Key, s.Value}
	for i := 0; i < ysig.Params().Len() && i < 2; i++ {
		e := vals[i]
		if e == nil {
			continue
		}
		id, ok := e.(*ast.Ident)
		if ok && id.Name == "_" {
			continue
		}
		t := ysig.Params().At(i).Type()
		v := x.freshTyped(st, "yield", t)
		if v.Sort == SRef {
			st.assume(Not(Eq(v, TNull)))
		}
		if ok && s.Tok == token.DEFINE {
			if d, ok := info.Defs[id].(*types.Var); ok {
				x.declVar(st, fr, d, v)
				continue
			}
		}
		x.store(st, out, x.place(st, fr, out, e), v, e.Pos())
	}
	o := x.execBlock(st, fr, s.Body.List)
	end := x.merge(o.normal, o.cont[""])
	if end != nil && !end.dead() {
		x.loopInvs(end, fr, lc, s, "preserved", false)
		x.lockState(end, hkeys, "loop", s.Pos())
	}
	exit := x.merge(exitSt, o.brk[""])
	if label != "" {
		exit = x.merge(exit, o.brk[label])
	}
	delete(o.brk, "")
	delete(o.cont, "")
	if label != "" {
		delete(o.brk, label)
		delete(o.cont, label)
	}
	o.normal = nil
	x.absorb(out, o)
	out.normal = exit
	return out
}

// monotoneCounter recognises "for i := e; ...; i++ / i-- / i += c / i -= c" (c a positive literal) where nothing else in the
// loop assigns i or takes its address. It returns the counter, its direction and its value on entry.
func (x *Xlat) monotoneCounter(st *State, fr *Frame, s *ast.ForStmt) (*ast.Ident, int, *Term) {
	if s.Post == nil {
		return nil, 0, nil
	}
	info := fr.info()
	var id *ast.Ident
	dir := 0
	switch p := s.Post.(type) {
	case *ast.IncDecStmt:
		i, ok := p.X.(*ast.Ident)
		if !ok {
			return nil, 0, nil
		}
		id = i
		if p.Tok == token.INC {
			dir = 1
		} else {
			dir = -1
		}
	case *ast.AssignStmt:
		if len(p.Lhs) != 1 || len(p.Rhs) != 1 || (p.Tok != token.ADD_ASSIGN && p.Tok != token.SUB_ASSIGN) {
			return nil, 0, nil
		}
		i, ok := p.Lhs[0].(*ast.Ident)
		if !ok {
			return nil, 0, nil
		}
		tv, ok := info.Types[p.Rhs[0]]
		if !ok || tv.Value == nil || tv.Value.Kind() != constant.Int || constant.Sign(tv.Value) <= 0 {
			return nil, 0, nil
		}
		id = i
		if p.Tok == token.ADD_ASSIGN {
			dir = 1
		} else {
			dir = -1
		}
	default:
		return nil, 0, nil
	}
	obj, _ := info.ObjectOf(id).(*types.Var)
	if obj == nil {
		return nil, 0, nil
	}
	if b, ok := obj.Type().Underlying().(*types.Basic); !ok || b.Info()&types.IsInteger == 0 {
		return nil, 0, nil
	}
	if _, _, ok := fr.lookupVar(obj); !ok {
		return nil, 0, nil
	}
	clean := true
	ast.Inspect(s.Body, func(n ast.Node) bool {
		switch n := n.(type) {
		case *ast.AssignStmt:
			for _, l := range n.Lhs {
				if li, ok := l.(*ast.Ident); ok && info.ObjectOf(li) == obj {
					clean = false
				}
			}
		case *ast.IncDecStmt:
			if li, ok := n.X.(*ast.Ident); ok && info.ObjectOf(li) == obj {
				clean = false
			}
		case *ast.UnaryExpr:
			if n.Op == token.AND {
				if li, ok := n.X.(*ast.Ident); ok && info.ObjectOf(li) == obj {
					clean = false
				}
			}
		case *ast.RangeStmt:
			for _, l := range []ast.Expr{n.Key, n.Value} {
				if li, ok := l.(*ast.Ident); ok && n.Tok == token.ASSIGN && info.ObjectOf(li) == obj {
					clean = false
				}
			}
		}
		return clean
	})
	if !clean {
		return nil, 0, nil
	}
	out := &Outcomes{}
	return id, dir, x.eval(st, fr, out, id)
}
