package main

// Spec language: lexer, parser, contract-file reader.

import (
	"fmt"
	"os"
	"strings"
	"unicode"
)

type SBind struct {
	Name string
	Type string // Go-like type text
}

type SExpr struct {
	Kind  string // ident int float bool nil str unary binary call index sel quant cond slice
	Name  string // ident name, selector field, literal text, call callee (when simple)
	Op    string
	Args  []*SExpr
	Binds []SBind
	Pats  [][]*SExpr
	Src   string
}

func (e *SExpr) String() string {
	switch e.Kind {
	case "ident", "int", "float", "bool", "nil", "str":
		return e.Name
	case "unary":
		return e.Op + e.Args[0].String()
	case "binary":
		return "(" + e.Args[0].String() + " " + e.Op + " " + e.Args[1].String() + ")"
	case "call":
		var as []string
		for _, a := range e.Args[1:] {
			as = append(as, a.String())
		}
		return e.Args[0].String() + "(" + strings.Join(as, ", ") + ")"
	case "index":
		return e.Args[0].String() + "[" + e.Args[1].String() + "]"
	case "sel":
		return e.Args[0].String() + "." + e.Name
	case "cond":
		return "(" + e.Args[0].String() + " ? " + e.Args[1].String() + " : " + e.Args[2].String() + ")"
	case "quant":
		var bs []string
		for _, b := range e.Binds {
			bs = append(bs, b.Name+" "+b.Type)
		}
		return "(" + e.Op + " " + strings.Join(bs, ", ") + " :: " + e.Args[0].String() + ")"
	}
	return "?" + e.Kind
}

type tok struct {
	k string // id num op eof str
	s string
}

type lexer struct {
	src  string
	toks []tok
	p    int
}

func lex(src string) ([]tok, error) {
	var out []tok
	i := 0
	for i < len(src) {
		c := rune(src[i])
		switch {
		case unicode.IsSpace(c):
			i++
		case unicode.IsLetter(c) || c == '_' || c == '#':
			j := i + 1
			for j < len(src) && (unicode.IsLetter(rune(src[j])) || unicode.IsDigit(rune(src[j])) || src[j] == '_') {
				j++
			}
			out = append(out, tok{"id", src[i:j]})
			i = j
		case unicode.IsDigit(c):
			j := i
			for j < len(src) && (unicode.IsDigit(rune(src[j])) || src[j] == '.' || src[j] == 'e' || src[j] == 'E' ||
				((src[j] == '-' || src[j] == '+') && j > i && (src[j-1] == 'e' || src[j-1] == 'E'))) {
				j++
			}
			out = append(out, tok{"num", src[i:j]})
			i = j
		case c == '"':
			j := i + 1
			for j < len(src) && src[j] != '"' {
				j++
			}
			if j >= len(src) {
				return nil, fmt.Errorf("unterminated string")
			}
			out = append(out, tok{"str", src[i : j+1]})
			i = j + 1
		default:
			ops := []string{"<==>", "==>", "::", "&&", "||", "==", "!=", "<=", ">=", "<<", ">>", "(", ")", "[", "]", "{", "}", ",", ".", "+", "-", "*", "/", "%", "<", ">", "!", "?", ":", "|", "&", "^"}
			matched := false
			for _, op := range ops {
				if strings.HasPrefix(src[i:], op) {
					out = append(out, tok{"op", op})
					i += len(op)
					matched = true
					break
				}
			}
			if !matched {
				return nil, fmt.Errorf("unexpected character %q in %q", c, src)
			}
		}
	}
	out = append(out, tok{"eof", ""})
	return out, nil
}

type sparser struct {
	toks []tok
	p    int
	src  string
}

func ParseSpecExpr(src string) (e *SExpr, err error) {
	toks, err := lex(src)
	if err != nil {
		return nil, err
	}
	p := &sparser{toks: toks, src: src}
	defer func() {
		if r := recover(); r != nil {
			if pe, ok := r.(parseErr); ok {
				err = fmt.Errorf("spec parse error: %s in %q", string(pe), src)
				return
			}
			panic(r)
		}
	}()
	e = p.expr()
	if p.peek().k != "eof" {
		p.fail("trailing tokens at " + p.peek().s)
	}
	e.Src = src
	return e, nil
}

type parseErr string

func (p *sparser) fail(m string)  { panic(parseErr(m)) }
func (p *sparser) peek() tok      { return p.toks[p.p] }
func (p *sparser) next() tok      { t := p.toks[p.p]; p.p++; return t }
func (p *sparser) isOp(s string) bool { t := p.peek(); return t.k == "op" && t.s == s }
func (p *sparser) accept(s string) bool {
	if p.isOp(s) {
		p.p++
		return true
	}
	return false
}
func (p *sparser) expect(s string) {
	if !p.accept(s) {
		p.fail("expected " + s + " got " + p.peek().s)
	}
}

func (p *sparser) expr() *SExpr {
	t := p.peek()
	if t.k == "id" && (t.s == "forall" || t.s == "exists") {
		p.next()
		binds := p.binders()
		p.expect("::")
		var pats [][]*SExpr
		for p.isOp("{") {
			p.next()
			var pat []*SExpr
			for {
				pat = append(pat, p.expr())
				if !p.accept(",") {
					break
				}
			}
			p.expect("}")
			pats = append(pats, pat)
		}
		body := p.expr()
		return &SExpr{Kind: "quant", Op: t.s, Binds: binds, Args: []*SExpr{body}, Pats: pats}
	}
	return p.iff()
}

func (p *sparser) binders() []SBind {
	var out []SBind
	for {
		var names []string
		for {
			t := p.next()
			if t.k != "id" {
				p.fail("binder name expected")
			}
			names = append(names, t.s)
			if !p.accept(",") {
				break
			}
			// lookahead: "name," continues names if the next-next token is , or an id followed by type... ambiguous:
			// we use the rule that a type always follows the last name directly (no comma in between)
		}
		ty := p.typeText()
		for _, n := range names {
			out = append(out, SBind{n, ty})
		}
		if !p.accept(",") {
			break
		}
	}
	return out
}

// typeText consumes a Go-like type: *T, []T, [N]T, map[K]V, pkg.T, T
func (p *sparser) typeText() string {
	t := p.peek()
	switch {
	case t.k == "op" && t.s == "*":
		p.next()
		return "*" + p.typeText()
	case t.k == "op" && t.s == "[":
		p.next()
		if p.accept("]") {
			return "[]" + p.typeText()
		}
		n := p.next()
		if n.k != "num" {
			p.fail("array length expected")
		}
		p.expect("]")
		return "[" + n.s + "]" + p.typeText()
	case t.k == "id" && t.s == "map":
		p.next()
		p.expect("[")
		k := p.typeText()
		p.expect("]")
		return "map[" + k + "]" + p.typeText()
	case t.k == "id":
		p.next()
		s := t.s
		if p.isOp(".") {
			p.next()
			n := p.next()
			if n.k != "id" {
				p.fail("type name expected after .")
			}
			s += "." + n.s
		}
		return s
	}
	p.fail("type expected, got " + t.s)
	return ""
}

func (p *sparser) iff() *SExpr {
	l := p.implies()
	for p.accept("<==>") {
		r := p.implies()
		l = &SExpr{Kind: "binary", Op: "<==>", Args: []*SExpr{l, r}}
	}
	return l
}

func (p *sparser) implies() *SExpr {
	l := p.cond()
	if p.accept("==>") {
		// right assoc; allow quantifier on the right
		var r *SExpr
		t := p.peek()
		if t.k == "id" && (t.s == "forall" || t.s == "exists") {
			r = p.expr()
		} else {
			r = p.implies()
		}
		return &SExpr{Kind: "binary", Op: "==>", Args: []*SExpr{l, r}}
	}
	return l
}

func (p *sparser) cond() *SExpr {
	c := p.or()
	if p.accept("?") {
		a := p.cond()
		p.expect(":")
		b := p.cond()
		return &SExpr{Kind: "cond", Args: []*SExpr{c, a, b}}
	}
	return c
}

func (p *sparser) or() *SExpr {
	l := p.and()
	for p.accept("||") {
		r := p.and()
		l = &SExpr{Kind: "binary", Op: "||", Args: []*SExpr{l, r}}
	}
	return l
}

func (p *sparser) and() *SExpr {
	l := p.cmp()
	for p.accept("&&") {
		var r *SExpr
		t := p.peek()
		if t.k == "id" && (t.s == "forall" || t.s == "exists") {
			r = p.expr()
		} else {
			r = p.cmp()
		}
		l = &SExpr{Kind: "binary", Op: "&&", Args: []*SExpr{l, r}}
	}
	return l
}

func (p *sparser) cmp() *SExpr {
	l := p.add()
	for {
		t := p.peek()
		if t.k == "op" && (t.s == "==" || t.s == "!=" || t.s == "<" || t.s == "<=" || t.s == ">" || t.s == ">=") {
			p.next()
			r := p.add()
			l = &SExpr{Kind: "binary", Op: t.s, Args: []*SExpr{l, r}}
			continue
		}
		return l
	}
}

func (p *sparser) add() *SExpr {
	l := p.mul()
	for {
		t := p.peek()
		if t.k == "op" && (t.s == "+" || t.s == "-" || t.s == "|" || t.s == "^") {
			p.next()
			r := p.mul()
			l = &SExpr{Kind: "binary", Op: t.s, Args: []*SExpr{l, r}}
			continue
		}
		return l
	}
}

func (p *sparser) mul() *SExpr {
	l := p.unary()
	for {
		t := p.peek()
		if t.k == "op" && (t.s == "*" || t.s == "/" || t.s == "%" || t.s == "<<" || t.s == ">>" || t.s == "&") {
			p.next()
			r := p.unary()
			l = &SExpr{Kind: "binary", Op: t.s, Args: []*SExpr{l, r}}
			continue
		}
		return l
	}
}

func (p *sparser) unary() *SExpr {
	if p.accept("!") {
		return &SExpr{Kind: "unary", Op: "!", Args: []*SExpr{p.unary()}}
	}
	if p.accept("-") {
		return &SExpr{Kind: "unary", Op: "-", Args: []*SExpr{p.unary()}}
	}
	if p.accept("*") {
		return &SExpr{Kind: "unary", Op: "*", Args: []*SExpr{p.unary()}}
	}
	return p.postfix()
}

func (p *sparser) postfix() *SExpr {
	e := p.primary()
	for {
		switch {
		case p.accept("."):
			t := p.next()
			if t.k != "id" {
				p.fail("field name expected")
			}
			e = &SExpr{Kind: "sel", Name: t.s, Args: []*SExpr{e}}
		case p.accept("["):
			i := p.expr()
			p.expect("]")
			e = &SExpr{Kind: "index", Args: []*SExpr{e, i}}
		case p.accept("("):
			args := []*SExpr{e}
			if !p.isOp(")") {
				for {
					args = append(args, p.expr())
					if !p.accept(",") {
						break
					}
				}
			}
			p.expect(")")
			e = &SExpr{Kind: "call", Args: args}
		default:
			return e
		}
	}
}

func (p *sparser) primary() *SExpr {
	t := p.next()
	switch t.k {
	case "num":
		if strings.ContainsAny(t.s, ".eE") {
			return &SExpr{Kind: "float", Name: t.s}
		}
		return &SExpr{Kind: "int", Name: t.s}
	case "str":
		return &SExpr{Kind: "str", Name: t.s}
	case "id":
		switch t.s {
		case "true", "false":
			return &SExpr{Kind: "bool", Name: t.s}
		case "nil":
			return &SExpr{Kind: "nil", Name: "nil"}
		}
		return &SExpr{Kind: "ident", Name: t.s}
	case "op":
		if t.s == "(" {
			e := p.expr()
			p.expect(")")
			return e
		}
	}
	p.fail("unexpected token " + t.s)
	return nil
}

// ---------------------------------------------------------------------------
// Contract files

type Clause struct {
	Kw   string
	Text string
	Expr *SExpr
	Line int
	Name string // optional label: "ensures[name] expr"
	Anchor string // assert: source text prefix of the statement the assertion is attached to
	When   string // assert: before | after
	Hit    bool
	Assume bool // assume clause: taken as a fact at the anchor and reported as an assumption
	Views []string // optional: views (property ids) this clause belongs to; empty = all
}

type LoopSpec struct {
	Key     string // header key e.g. range(layer.Nodes)#1
	Index   string // ghost name of the hidden iteration index
	Invs    []*Clause
	Decr    *Clause
	Line    int
	Matched bool
}

type FuncSpec struct {
	Pkg      string // package path
	Name     string // Func or Recv.Func
	Requires []*Clause
	Ensures  []*Clause
	EnsPanic []*Clause
	Modifies []string
	HasMod   bool
	Loops    []*LoopSpec
	Inline   bool
	Trusted  string // reason if trusted (contract assumed, body not verified)
	Pure     bool
	Mode     string
	Decr     *Clause
	Ghosts   []SBind // ghost parameters
	Asserts  []*Clause
	Line     int
	File     string
	NoPanic  bool // claims: under requires the function never panics (used by callers)
}

type SpecFunc struct {
	Pkg    string
	Name   string
	Params []SBind
	Ret    string
	Body   *SExpr // nil => uninterpreted
	Axioms []*Clause
	Line   int
	File   string
	Opaque bool
}

type Lemma struct {
	Pkg    string
	Name   string
	Params []SBind
	Body   *SExpr
	Hyps   []*Clause // "given" clauses
	Line   int
	File   string
}

type SpecFile struct {
	Funcs  []*FuncSpec
	Specs  []*SpecFunc
	Lemmas []*Lemma
}

var clauseKw = map[string]bool{
	"func": true, "spec": true, "lemma": true, "requires": true, "ensures": true, "modifies": true,
	"loop": true, "invariant": true, "decreases": true, "inline": true, "trusted": true, "pure": true,
	"mode": true, "ghost": true, "ensures_on_panic": true, "axiom": true, "given": true, "nopanic": true, "opaque": true,
	"assert": true, "assume": true,
}

// ReadSpecFile parses the //@ lines of a file.
func ReadSpecFile(path, pkg string) (*SpecFile, error) {
	data, err := os.ReadFile(path)
	if err != nil {
		return nil, err
	}
	type rawClause struct {
		kw, text string
		line     int
	}
	var raws []rawClause
	for i, ln := range strings.Split(string(data), "\n") {
		s := strings.TrimSpace(ln)
		if !strings.HasPrefix(s, "//@") {
			continue
		}
		s = strings.TrimSpace(s[3:])
		if s == "" || strings.HasPrefix(s, "--") {
			continue
		}
		// strip trailing comment
		if k := strings.Index(s, " -- "); k >= 0 {
			s = strings.TrimSpace(s[:k])
		}
		w := s
		rest := ""
		if k := strings.IndexAny(s, " \t"); k >= 0 {
			w, rest = s[:k], strings.TrimSpace(s[k+1:])
		}
		base := w
		if k := strings.Index(w, "["); k >= 0 {
			base = w[:k]
		}
		if clauseKw[base] {
			raws = append(raws, rawClause{w, rest, i + 1})
		} else {
			if len(raws) == 0 {
				return nil, fmt.Errorf("%s:%d: continuation without clause", path, i+1)
			}
			raws[len(raws)-1].text += " " + s
		}
	}
	sf := &SpecFile{}
	var curF *FuncSpec
	var curL *LoopSpec
	var curS *SpecFunc
	var curLem *Lemma
	mk := func(r rawClause) (*Clause, error) {
		c := &Clause{Kw: r.kw, Text: r.text, Line: r.line}
		if k := strings.Index(r.kw, "["); k >= 0 {
			c.Name = strings.TrimSuffix(r.kw[k+1:], "]")
			c.Kw = r.kw[:k]
			// "label|P1,P2": the clause belongs only to the views (properties) P1, P2
			if b := strings.Index(c.Name, "|"); b >= 0 {
				for _, v := range strings.Split(c.Name[b+1:], ",") {
					if v = strings.TrimSpace(v); v != "" {
						c.Views = append(c.Views, v)
					}
				}
				c.Name = c.Name[:b]
			}
		}
		e, err := ParseSpecExpr(r.text)
		if err != nil {
			return nil, fmt.Errorf("%s:%d: %v", path, r.line, err)
		}
		c.Expr = e
		return c, nil
	}
	for _, r := range raws {
		kw := r.kw
		if k := strings.Index(kw, "["); k >= 0 {
			kw = kw[:k]
		}
		switch kw {
		case "func":
			curF = &FuncSpec{Pkg: pkg, Name: strings.TrimSpace(r.text), Line: r.line, File: path}
			sf.Funcs = append(sf.Funcs, curF)
			curL, curS, curLem = nil, nil, nil
		case "spec":
			s, err := parseSpecFuncHeader(r.text)
			if err != nil {
				return nil, fmt.Errorf("%s:%d: %v", path, r.line, err)
			}
			s.Pkg, s.Line, s.File = pkg, r.line, path
			sf.Specs = append(sf.Specs, s)
			curS, curF, curL, curLem = s, nil, nil, nil
		case "lemma":
			l, err := parseLemmaHeader(r.text)
			if err != nil {
				return nil, fmt.Errorf("%s:%d: %v", path, r.line, err)
			}
			l.Pkg, l.Line, l.File = pkg, r.line, path
			sf.Lemmas = append(sf.Lemmas, l)
			curLem, curF, curL, curS = l, nil, nil, nil
		case "given":
			if curLem == nil {
				return nil, fmt.Errorf("%s:%d: given outside lemma", path, r.line)
			}
			c, err := mk(r)
			if err != nil {
				return nil, err
			}
			curLem.Hyps = append(curLem.Hyps, c)
		case "axiom":
			if curS == nil {
				return nil, fmt.Errorf("%s:%d: axiom outside spec", path, r.line)
			}
			c, err := mk(r)
			if err != nil {
				return nil, err
			}
			curS.Axioms = append(curS.Axioms, c)
		case "opaque":
			if curS != nil {
				curS.Opaque = true
			}
		default:
			if curF == nil {
				if curLem != nil && kw == "ensures" {
					c, err := mk(r)
					if err != nil {
						return nil, err
					}
					if curLem.Body == nil {
						curLem.Body = c.Expr
					} else {
						curLem.Body = &SExpr{Kind: "binary", Op: "&&", Args: []*SExpr{curLem.Body, c.Expr}, Src: curLem.Body.Src + " && " + c.Expr.Src}
					}
					continue
				}
				return nil, fmt.Errorf("%s:%d: clause %s outside func", path, r.line, kw)
			}
			switch kw {
			case "assert", "assume":
				// assert[label] before|after "statement text prefix" : expr
				// assume[label] before|after "statement text prefix" : expr   (an explicit, reported assumption: never proved)
				txt := strings.TrimSpace(r.text)
				when := "before"
				if strings.HasPrefix(txt, "after ") {
					when, txt = "after", strings.TrimSpace(txt[6:])
				} else if strings.HasPrefix(txt, "before ") {
					txt = strings.TrimSpace(txt[7:])
				}
				if !strings.HasPrefix(txt, "\"") {
					return nil, fmt.Errorf("%s:%d: assert needs an anchor: assert before \"stmt\" : expr", path, r.line)
				}
				q := strings.Index(txt[1:], "\"")
				if q < 0 {
					return nil, fmt.Errorf("%s:%d: unterminated anchor", path, r.line)
				}
				anchor := txt[1 : 1+q]
				rest := strings.TrimSpace(txt[2+q:])
				rest = strings.TrimSpace(strings.TrimPrefix(rest, ":"))
				c, err := mk(rawClause{r.kw, rest, r.line})
				if err != nil {
					return nil, err
				}
				c.Anchor, c.When = anchor, when
				c.Assume = kw == "assume"
				curF.Asserts = append(curF.Asserts, c)
			case "requires", "ensures", "ensures_on_panic":
				c, err := mk(r)
				if err != nil {
					return nil, err
				}
				switch kw {
				case "requires":
					curF.Requires = append(curF.Requires, c)
				case "ensures":
					curF.Ensures = append(curF.Ensures, c)
				case "ensures_on_panic":
					curF.EnsPanic = append(curF.EnsPanic, c)
				}
			case "modifies":
				curF.HasMod = true
				for _, m := range strings.Split(r.text, ",") {
					m = strings.TrimSpace(m)
					if m != "" && m != "nothing" {
						curF.Modifies = append(curF.Modifies, m)
					}
				}
			case "loop":
				fs := strings.Fields(r.text)
				if len(fs) == 0 {
					return nil, fmt.Errorf("%s:%d: loop key missing", path, r.line)
				}
				curL = &LoopSpec{Key: fs[0], Line: r.line}
				for i := 1; i+1 < len(fs); i += 2 {
					if fs[i] == "index" {
						curL.Index = fs[i+1]
					}
				}
				curF.Loops = append(curF.Loops, curL)
			case "invariant":
				if curL == nil {
					return nil, fmt.Errorf("%s:%d: invariant outside loop", path, r.line)
				}
				c, err := mk(r)
				if err != nil {
					return nil, err
				}
				curL.Invs = append(curL.Invs, c)
			case "decreases":
				c, err := mk(r)
				if err != nil {
					return nil, err
				}
				if curL != nil {
					curL.Decr = c
				} else {
					curF.Decr = c
				}
			case "inline":
				curF.Inline = true
			case "pure":
				curF.Pure = true
			case "nopanic":
				curF.NoPanic = true
			case "trusted":
				curF.Trusted = r.text
				if curF.Trusted == "" {
					curF.Trusted = "(no reason given)"
				}
			case "mode":
				curF.Mode = strings.TrimSpace(r.text)
			case "ghost":
				toks, err := lex(r.text)
				if err != nil {
					return nil, fmt.Errorf("%s:%d: %v", path, r.line, err)
				}
				p := &sparser{toks: toks}
				func() {
					defer func() {
						if rr := recover(); rr != nil {
							err = fmt.Errorf("%v", rr)
						}
					}()
					curF.Ghosts = append(curF.Ghosts, p.binders()...)
				}()
				if err != nil {
					return nil, fmt.Errorf("%s:%d: %v", path, r.line, err)
				}
			}
		}
	}
	return sf, nil
}

// "name(a T, b U) R = body" or "name(a T) R" (uninterpreted)
func parseSpecFuncHeader(text string) (*SpecFunc, error) {
	body := ""
	head := text
	// find top-level " = " after the closing parenthesis of params
	depth := 0
	closeIdx := -1
	for i, c := range text {
		if c == '(' {
			depth++
		} else if c == ')' {
			depth--
			if depth == 0 {
				closeIdx = i
				break
			}
		}
	}
	if closeIdx < 0 {
		return nil, fmt.Errorf("bad spec header %q", text)
	}
	rest := text[closeIdx+1:]
	if k := strings.Index(rest, "="); k >= 0 && !strings.HasPrefix(rest[k:], "==") {
		head = text[:closeIdx+1] + rest[:k]
		body = strings.TrimSpace(rest[k+1:])
	}
	op := strings.Index(head, "(")
	name := strings.TrimSpace(head[:op])
	params := head[op+1 : closeIdx]
	ret := strings.TrimSpace(head[closeIdx+1:])
	s := &SpecFunc{Name: name, Ret: ret}
	if strings.TrimSpace(params) != "" {
		toks, err := lex(params)
		if err != nil {
			return nil, err
		}
		p := &sparser{toks: toks}
		var perr error
		func() {
			defer func() {
				if r := recover(); r != nil {
					perr = fmt.Errorf("%v", r)
				}
			}()
			s.Params = p.binders()
		}()
		if perr != nil {
			return nil, perr
		}
	}
	if body != "" {
		e, err := ParseSpecExpr(body)
		if err != nil {
			return nil, err
		}
		s.Body = e
	}
	return s, nil
}

// "name(a T, b U)" followed by given/ensures clauses, or "name(a T): expr"
func parseLemmaHeader(text string) (*Lemma, error) {
	op := strings.Index(text, "(")
	if op < 0 {
		return &Lemma{Name: strings.TrimSpace(text)}, nil
	}
	depth := 0
	closeIdx := -1
	for i, c := range text {
		if c == '(' {
			depth++
		} else if c == ')' {
			depth--
			if depth == 0 {
				closeIdx = i
				break
			}
		}
	}
	l := &Lemma{Name: strings.TrimSpace(text[:op])}
	params := text[op+1 : closeIdx]
	if strings.TrimSpace(params) != "" {
		toks, err := lex(params)
		if err != nil {
			return nil, err
		}
		p := &sparser{toks: toks}
		var perr error
		func() {
			defer func() {
				if r := recover(); r != nil {
					perr = fmt.Errorf("%v", r)
				}
			}()
			l.Params = p.binders()
		}()
		if perr != nil {
			return nil, perr
		}
	}
	rest := strings.TrimSpace(text[closeIdx+1:])
	if strings.HasPrefix(rest, ":") {
		e, err := ParseSpecExpr(strings.TrimSpace(rest[1:]))
		if err != nil {
			return nil, err
		}
		l.Body = e
	}
	return l, nil
}

// inView reports whether a clause participates in the given view (property id). Empty view = everything.
func (c *Clause) inView(view string) bool {
	if view == "" || len(c.Views) == 0 {
		return true
	}
	for _, v := range c.Views {
		if v == view {
			return true
		}
	}
	return false
}
