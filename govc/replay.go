package main

// Replay of solver counterexamples on the real code.
//
// When an obligation of kind "safety" or "ensures" of a top-level function comes back "sat", the model is read back
// (interactive z3 session, get-value on the entry-state terms of the parameters and of everything reachable from
// them), turned into Go values, and the REAL function is run on them by an in-package test that is injected with
// `go test -overlay` (nothing is written to the repository). A safety counterexample replays when the call panics;
// an ensures counterexample replays when the postcondition, translated to Go, evaluates to false after the call.
// Anything outside the supported subset (interfaces, function values, channels, string-keyed maps, quantifiers over
// non-integers, recursive spec functions, ...) makes the replay give up; the violation is then reported with
// "no-failing-input-found" exactly as before. A replay never turns a failed obligation into a pass.

import (
	"bufio"
	"encoding/json"
	"fmt"
	"go/types"
	"io"
	"os"
	"os/exec"
	"path/filepath"
	"sort"
	"strconv"
	"strings"
	"time"
)

type ReplayInfo struct {
	X      *Xlat
	FI     *FuncInfo
	Params []*types.Var
	Sig    *types.Signature
}

type ReplayResult struct {
	Reproduced bool
	Note       string // why not / what happened
	TestSrc    string
	Output     string
}

// ---------------------------------------------------------------------------
// interactive solver session

type z3session struct {
	cmd  *exec.Cmd
	in   io.WriteCloser
	out  *bufio.Reader
	decl map[string]bool
}

func startZ3(query string) (*z3session, error) {
	cmd := exec.Command("z3-new", "-in", "-smt2", "-T:30")
	in, err := cmd.StdinPipe()
	if err != nil {
		return nil, err
	}
	outp, err := cmd.StdoutPipe()
	if err != nil {
		return nil, err
	}
	if err := cmd.Start(); err != nil {
		return nil, err
	}
	s := &z3session{cmd: cmd, in: in, out: bufio.NewReader(outp), decl: map[string]bool{}}
	for _, ln := range strings.Split(query, "\n") {
		if strings.HasPrefix(ln, "(declare-const ") {
			f := strings.Fields(ln)
			if len(f) >= 2 {
				s.decl[f[1]] = true
			}
		}
	}
	q := strings.Replace(query, "(check-sat)\n", "", 1)
	fmt.Fprint(in, "(set-option :produce-models true)\n(set-option :pp.decimal true)\n(set-option :pp.decimal_precision 20)\n")
	fmt.Fprint(in, q)
	fmt.Fprint(in, "(check-sat)\n")
	r, err := s.readSexp()
	if err != nil {
		s.close()
		return nil, err
	}
	if strings.TrimSpace(r) != "sat" {
		s.close()
		return nil, fmt.Errorf("solver answered %q when asked again for the model", strings.TrimSpace(r))
	}
	return s, nil
}

func (s *z3session) close() {
	s.in.Close()
	done := make(chan struct{})
	go func() { s.cmd.Wait(); close(done) }()
	select {
	case <-done:
	case <-time.After(2 * time.Second):
		s.cmd.Process.Kill()
	}
}

// readSexp reads one atom or one balanced s-expression.
func (s *z3session) readSexp() (string, error) {
	var sb strings.Builder
	depth := 0
	started := false
	inStr := false
	for {
		c, err := s.out.ReadByte()
		if err != nil {
			return sb.String(), err
		}
		if !started {
			if c == ' ' || c == '\n' || c == '\r' || c == '\t' {
				continue
			}
			started = true
		}
		sb.WriteByte(c)
		if inStr {
			if c == '"' {
				inStr = false
			}
			continue
		}
		switch c {
		case '"':
			inStr = true
		case '(':
			depth++
		case ')':
			depth--
			if depth == 0 {
				return sb.String(), nil
			}
		case '\n':
			if depth == 0 {
				return strings.TrimSpace(sb.String()), nil
			}
		}
	}
}

// eval returns the model value of a term as printed by the solver, "" when the term mentions a symbol the query does
// not constrain at all (its value is irrelevant: the zero value is used).
func (s *z3session) eval(t *Term) (string, error) {
	cs, fs := map[string]bool{}, map[string]bool{}
	t.FreeSyms(cs, fs, map[string]int{})
	for k := range cs {
		if !s.decl[k] && k != "null" {
			return "", nil
		}
	}
	fmt.Fprintf(s.in, "(get-value (%s))\n", t.String())
	r, err := s.readSexp()
	if err != nil {
		return "", err
	}
	r = strings.TrimSpace(r)
	if strings.HasPrefix(r, "(error") {
		return "", nil
	}
	// ((term value))
	r = strings.TrimSuffix(strings.TrimPrefix(r, "(("), "))")
	ts := t.String()
	if strings.HasPrefix(r, ts) {
		return strings.TrimSpace(r[len(ts):]), nil
	}
	// the solver may print the term differently: take the last balanced item
	depth := 0
	for i := len(r) - 1; i >= 0; i-- {
		switch r[i] {
		case ')':
			depth++
		case '(':
			depth--
		case ' ':
			if depth == 0 {
				return strings.TrimSpace(r[i:]), nil
			}
		}
	}
	return r, nil
}

func parseIntVal(v string) (int64, bool) {
	v = strings.TrimSpace(v)
	neg := false
	if strings.HasPrefix(v, "(-") {
		neg = true
		v = strings.TrimSpace(strings.TrimSuffix(strings.TrimPrefix(v, "(-"), ")"))
	}
	n, err := strconv.ParseInt(v, 10, 64)
	if err != nil {
		return 0, false
	}
	if neg {
		n = -n
	}
	return n, true
}

func parseRealVal(v string) (float64, bool) {
	v = strings.TrimSpace(v)
	neg := false
	if strings.HasPrefix(v, "(-") {
		neg = true
		v = strings.TrimSpace(strings.TrimSuffix(strings.TrimPrefix(v, "(-"), ")"))
	}
	if strings.HasPrefix(v, "(/") {
		f := strings.Fields(strings.TrimSuffix(strings.TrimPrefix(v, "(/"), ")"))
		if len(f) != 2 {
			return 0, false
		}
		a, ok1 := parseRealVal(f[0])
		b, ok2 := parseRealVal(f[1])
		if !ok1 || !ok2 || b == 0 {
			return 0, false
		}
		if neg {
			return -a / b, true
		}
		return a / b, true
	}
	v = strings.TrimSuffix(v, "?")
	f, err := strconv.ParseFloat(v, 64)
	if err != nil {
		return 0, false
	}
	if neg {
		f = -f
	}
	return f, true
}

// ---------------------------------------------------------------------------
// model -> Go values

type replayer struct {
	x       *Xlat
	z       *z3session
	pkg     *types.Package
	imports map[string]string // import path -> alias
	objs    map[string]string // model value + type -> Go variable
	objType map[string][]string
	decls   []string
	inits   []string
	late    []func()
	nobj    int
	strs    map[string]string
}

type replayGiveUp struct{ why string }

func (r *replayer) giveUp(f string, a ...any) { panic(replayGiveUp{fmt.Sprintf(f, a...)}) }

func (r *replayer) qual(p *types.Package) string {
	if p == r.pkg {
		return ""
	}
	if a, ok := r.imports[p.Path()]; ok {
		return a
	}
	a := fmt.Sprintf("p%d", len(r.imports)+1)
	r.imports[p.Path()] = a
	return a
}

func (r *replayer) typeStr(t types.Type) string {
	return types.TypeString(t, r.qual)
}

func (r *replayer) ev(t *Term) string {
	v, err := r.z.eval(t)
	if err != nil {
		r.giveUp("model read failed: %v", err)
	}
	return v
}

func (r *replayer) value(t *Term, typ types.Type, depth int) string {
	typ = types.Unalias(typ)
	switch u := typ.Underlying().(type) {
	case *types.Basic:
		v := r.ev(t)
		switch {
		case u.Info()&types.IsBoolean != 0:
			if v == "true" {
				return "true"
			}
			return "false"
		case u.Info()&types.IsInteger != 0:
			n, ok := parseIntVal(v)
			if v == "" {
				n, ok = 0, true
			}
			if !ok {
				r.giveUp("integer value %q", v)
			}
			return fmt.Sprintf("%s(%d)", r.typeStr(typ), n)
		case u.Info()&types.IsFloat != 0:
			f, ok := parseRealVal(v)
			if v == "" {
				f, ok = 0, true
			}
			if !ok {
				r.giveUp("real value %q", v)
			}
			return fmt.Sprintf("%s(%s)", r.typeStr(typ), strconv.FormatFloat(f, 'g', -1, 64))
		case u.Info()&types.IsString != 0:
			if v == "" {
				return `""`
			}
			s, ok := r.strs[v]
			if !ok {
				s = fmt.Sprintf("s%d", len(r.strs))
				r.strs[v] = s
			}
			return fmt.Sprintf("%s(%q)", r.typeStr(typ), s)
		}
		r.giveUp("basic type %s", typ)
	case *types.Pointer:
		st, ok := types.Unalias(u.Elem()).Underlying().(*types.Struct)
		if !ok {
			r.giveUp("pointer to %s", u.Elem())
		}
		v := r.ev(t)
		if v == "" || v == "null" {
			return "nil"
		}
		isNull := r.ev(Eq(t, TNull))
		if isNull == "true" {
			return "nil"
		}
		key := v + "/" + r.typeStr(typ)
		if name, ok := r.objs[key]; ok {
			return name
		}
		if depth > 5 || r.nobj >= 24 {
			return "nil"
		}
		r.nobj++
		name := fmt.Sprintf("o%d", r.nobj)
		r.objs[key] = name
		ts := r.typeStr(typ)
		r.objType[ts] = append(r.objType[ts], name)
		r.decls = append(r.decls, fmt.Sprintf("%s := &%s{}", name, r.typeStr(u.Elem())))
		for _, lf := range r.x.tm.Leaves(u.Elem(), st, nil) {
			ft := Sel(r.x.initial(lf.Key, r.x.tm.HeapSort(lf.Type)), t)
			path, ok := fieldPath(st, lf.Path, u.Elem(), r.pkg)
			if !ok {
				continue // unexported field of another package: cannot be set from here
			}
			lf := lf
			if _, isMap := types.Unalias(lf.Type).Underlying().(*types.Map); isMap {
				r.late = append(r.late, func() {
					e := r.value(ft, lf.Type, depth+1)
					if e != "nil" {
						r.inits = append(r.inits, fmt.Sprintf("%s.%s = %s", name, path, e))
					}
				})
				continue
			}
			e := r.value(ft, lf.Type, depth+1)
			if !isZeroExpr(e) {
				r.inits = append(r.inits, fmt.Sprintf("%s.%s = %s", name, path, e))
			}
		}
		return name
	case *types.Slice:
		nv := r.ev(SLen(t))
		n, ok := parseIntVal(nv)
		if nv == "" {
			n, ok = 0, true
		}
		if !ok || n < 0 || n > 8 {
			r.giveUp("slice length %q", nv)
		}
		if n == 0 {
			if av, _ := parseIntVal(r.ev(SArr(t))); av == 0 {
				return "nil"
			}
			return r.typeStr(typ) + "{}"
		}
		es := r.x.tm.SortOf(u.Elem())
		h := r.x.initial(r.x.tm.ElemsKey(u.Elem()), elemsSort(es))
		var els []string
		for i := int64(0); i < n; i++ {
			et := Sel(Sel(h, SArr(t)), App("+", SInt, SOff(t), IntLit(i)))
			els = append(els, r.value(et, u.Elem(), depth+1))
		}
		return r.typeStr(typ) + "{" + strings.Join(els, ", ") + "}"
	case *types.Array:
		d := r.x.ctx.dtByName[r.x.tm.SortOf(typ)]
		if d == nil {
			r.giveUp("array type %s", typ)
		}
		var els []string
		for _, f := range d.Fields {
			els = append(els, r.value(App(f.Name, f.Sort, t), u.Elem(), depth+1))
		}
		return r.typeStr(typ) + "{" + strings.Join(els, ", ") + "}"
	case *types.Struct:
		d := r.x.ctx.dtByName[r.x.tm.SortOf(typ)]
		if d == nil {
			r.giveUp("struct type %s", typ)
		}
		var els []string
		k := 0
		for i := 0; i < u.NumFields(); i++ {
			f := u.Field(i)
			if skipField(f) {
				continue
			}
			if k >= len(d.Fields) {
				break
			}
			df := d.Fields[k]
			k++
			if !f.Exported() && f.Pkg() != r.pkg {
				continue
			}
			e := r.value(App(df.Name, df.Sort, t), f.Type(), depth+1)
			if !isZeroExpr(e) {
				els = append(els, f.Name()+": "+e)
			}
		}
		return r.typeStr(typ) + "{" + strings.Join(els, ", ") + "}"
	case *types.Map:
		v := r.ev(t)
		if v == "" || v == "null" || r.ev(Eq(t, TNull)) == "true" {
			return "nil"
		}
		ks, vs := r.x.tm.SortOf(u.Key()), r.x.tm.SortOf(u.Elem())
		dom := Sel(r.x.initial(mapDomKey(ks, vs), ArrSort(SRef, ArrSort(ks, SBool))), t)
		val := Sel(r.x.initial(mapValKey(ks, vs), ArrSort(SRef, ArrSort(ks, vs))), t)
		var ents []string
		addKey := func(kt *Term, goKey string) {
			if r.ev(Sel(dom, kt)) == "true" {
				ents = append(ents, goKey+": "+r.value(Sel(val, kt), u.Elem(), depth+1))
			}
		}
		switch ku := types.Unalias(u.Key()).Underlying().(type) {
		case *types.Pointer:
			// candidate keys: the objects of that type found so far (maps are filled last)
			kts := r.typeStr(u.Key())
			type cand struct{ val, name string }
			var cs []cand
			for key, name := range r.objs {
				if strings.HasSuffix(key, "/"+kts) {
					cs = append(cs, cand{strings.TrimSuffix(key, "/"+kts), name})
				}
			}
			sort.Slice(cs, func(i, j int) bool { return cs[i].name < cs[j].name })
			for _, c := range cs {
				addKey(Const(c.val, SRef), c.name)
			}
		case *types.Basic:
			if ku.Info()&types.IsInteger == 0 {
				r.giveUp("map keyed by %s", u.Key())
			}
			for i := int64(-1); i <= 6; i++ {
				addKey(IntLit(i), fmt.Sprintf("%s(%d)", r.typeStr(u.Key()), i))
			}
		default:
			r.giveUp("map keyed by %s", u.Key())
		}
		return r.typeStr(typ) + "{" + strings.Join(ents, ", ") + "}"
	}
	r.giveUp("type %s", typ)
	return ""
}

func isZeroExpr(e string) bool {
	if e == "nil" || e == "false" || e == `""` {
		return true
	}
	if i := strings.Index(e, "("); i >= 0 && strings.HasSuffix(e, ")") {
		in := e[i+1 : len(e)-1]
		return in == "0" || in == `""`
	}
	return false
}

// fieldPath: Go selector for a leaf (embedded struct names are skipped: promoted access).
func fieldPath(st *types.Struct, path []int, owner types.Type, from *types.Package) (string, bool) {
	var names []string
	cur := st
	for i, idx := range path {
		f := cur.Field(idx)
		if !f.Exported() && f.Pkg() != from {
			if !(f.Embedded() && i < len(path)-1) {
				return "", false
			}
		}
		if !(f.Embedded() && i < len(path)-1) {
			names = append(names, f.Name())
		}
		if i < len(path)-1 {
			sub, ok := types.Unalias(f.Type()).Underlying().(*types.Struct)
			if !ok {
				return "", false
			}
			cur = sub
		}
	}
	return strings.Join(names, "."), true
}

// ---------------------------------------------------------------------------
// postcondition -> Go

type specGo struct {
	x      *Xlat
	params map[string]string // spec name -> Go expression
	bound  map[string]bool
	olds   []string // statements evaluated before the call
	nold   int
	pkg    *types.Package
}

func (g *specGo) fail(f string, a ...any) { panic(replayGiveUp{"postcondition not translatable to Go: " + fmt.Sprintf(f, a...)}) }

func hasBound(e *SExpr, bound map[string]bool) bool {
	if e.Kind == "ident" && bound[e.Name] {
		return true
	}
	for _, a := range e.Args {
		if hasBound(a, bound) {
			return true
		}
	}
	return false
}

func (g *specGo) tr(e *SExpr) string {
	switch e.Kind {
	case "ident":
		if v, ok := g.params[e.Name]; ok {
			return v
		}
		return e.Name
	case "int", "float", "bool", "nil", "str":
		return e.Name
	case "unary":
		return "(" + e.Op + g.tr(e.Args[0]) + ")"
	case "binary":
		a, b := g.tr(e.Args[0]), g.tr(e.Args[1])
		switch e.Op {
		case "==>":
			return "(!(" + a + ") || (" + b + "))"
		case "<==>":
			return "((" + a + ") == (" + b + "))"
		}
		return "(" + a + " " + e.Op + " " + b + ")"
	case "sel":
		return g.tr(e.Args[0]) + "." + e.Name
	case "index":
		return g.tr(e.Args[0]) + "[" + g.tr(e.Args[1]) + "]"
	case "cond":
		c, a, b := g.tr(e.Args[0]), g.tr(e.Args[1]), g.tr(e.Args[2])
		return "((" + c + " && " + a + ") || (!" + c + " && " + b + "))" // Boolean branches only; anything else fails to compile and the replay gives up
	case "call":
		callee := e.Args[0]
		args := e.Args[1:]
		if callee.Kind == "ident" {
			switch callee.Name {
			case "len", "min", "max", "cap":
				var as []string
				for _, a := range args {
					as = append(as, g.tr(a))
				}
				return callee.Name + "(" + strings.Join(as, ", ") + ")"
			case "has":
				return "func() bool { _, ok := " + g.tr(args[0]) + "[" + g.tr(args[1]) + "]; return ok }()"
			case "old":
				a := args[0]
				if !hasBound(a, g.bound) {
					g.nold++
					n := fmt.Sprintf("old%d", g.nold)
					g.olds = append(g.olds, fmt.Sprintf("%s := %s", n, g.tr(a)))
					return n
				}
				if a.Kind == "index" && !hasBound(a.Args[0], g.bound) {
					g.nold++
					n := fmt.Sprintf("old%d", g.nold)
					g.olds = append(g.olds, fmt.Sprintf("%s := slices.Clone(%s)", n, g.tr(a.Args[0])))
					return n + "[" + g.tr(a.Args[1]) + "]"
				}
				g.fail("old() of %s", a.String())
			case "now", "loopold", "allocated", "allocatedArr", "allocatedArrId", "arr", "off", "written", "post", "arr2":
				g.fail("%s()", callee.Name)
			}
			if sf, ok := g.x.prog.SpecFns[callee.Name]; ok {
				if sf.Body == nil || mentionsCall(sf.Body, sf.Name) || len(sf.Params) != len(args) {
					g.fail("spec function %s", sf.Name)
				}
				saved := map[string]string{}
				had := map[string]bool{}
				var vals []string
				for _, a := range args {
					vals = append(vals, "("+g.tr(a)+")")
				}
				for i, p := range sf.Params {
					saved[p.Name], had[p.Name] = g.params[p.Name], false
					if _, ok := g.params[p.Name]; ok {
						had[p.Name] = true
					}
					g.params[p.Name] = vals[i]
				}
				out := g.tr(sf.Body)
				for _, p := range sf.Params {
					if had[p.Name] {
						g.params[p.Name] = saved[p.Name]
					} else {
						delete(g.params, p.Name)
					}
				}
				return "(" + out + ")"
			}
		}
		// a Go function or method call
		var as []string
		for _, a := range args {
			as = append(as, g.tr(a))
		}
		return g.tr(callee) + "(" + strings.Join(as, ", ") + ")"
	case "quant":
		for _, b := range e.Binds {
			if b.Type != "int" {
				g.fail("quantifier over %s", b.Type)
			}
		}
		body := e.Args[0]
		var guard, rest *SExpr
		if e.Op == "forall" {
			if body.Kind != "binary" || body.Op != "==>" {
				g.fail("forall without a range")
			}
			guard, rest = body.Args[0], body.Args[1]
		} else {
			guard, rest = body, nil
		}
		var conj []*SExpr
		var flat func(x *SExpr)
		flat = func(x *SExpr) {
			if x.Kind == "binary" && x.Op == "&&" {
				flat(x.Args[0])
				flat(x.Args[1])
				return
			}
			conj = append(conj, x)
		}
		flat(guard)
		for _, b := range e.Binds {
			g.bound[b.Name] = true
		}
		defer func() {
			for _, b := range e.Binds {
				delete(g.bound, b.Name)
			}
		}()
		type rng struct{ lo, hi string }
		rngs := map[string]*rng{}
		used := map[int]bool{}
		for _, b := range e.Binds {
			rg := &rng{}
			for i, c := range conj {
				if c.Kind != "binary" || used[i] {
					continue
				}
				l, rr := c.Args[0], c.Args[1]
				isV := func(x *SExpr) bool { return x.Kind == "ident" && x.Name == b.Name }
				free := func(x *SExpr) bool {
					// the bound may mention outer variables and earlier binders, not this or later ones
					m := map[string]bool{}
					seen := false
					for _, bb := range e.Binds {
						if bb.Name == b.Name {
							seen = true
						}
						if seen {
							m[bb.Name] = true
						}
					}
					return !hasBound(x, m)
				}
				switch {
				case rg.lo == "" && c.Op == "<=" && isV(rr) && free(l):
					rg.lo, used[i] = g.tr(l), true
				case rg.lo == "" && c.Op == "<" && isV(rr) && free(l):
					rg.lo, used[i] = "("+g.tr(l)+")+1", true
				case rg.hi == "" && c.Op == "<" && isV(l) && free(rr):
					rg.hi, used[i] = g.tr(rr), true
				case rg.hi == "" && c.Op == "<=" && isV(l) && free(rr):
					rg.hi, used[i] = "("+g.tr(rr)+")+1", true
				}
			}
			if rg.lo == "" || rg.hi == "" {
				g.fail("no integer range for %s in %s", b.Name, e.String())
			}
			rngs[b.Name] = rg
		}
		var restG []string
		for i, c := range conj {
			if !used[i] {
				restG = append(restG, g.tr(c))
			}
		}
		cond := "true"
		if len(restG) > 0 {
			cond = strings.Join(restG, " && ")
		}
		var sb strings.Builder
		sb.WriteString("func() bool {\n")
		for _, b := range e.Binds {
			fmt.Fprintf(&sb, "for %s := %s; %s < %s; %s++ {\n", b.Name, rngs[b.Name].lo, b.Name, rngs[b.Name].hi, b.Name)
		}
		if e.Op == "forall" {
			fmt.Fprintf(&sb, "if (%s) && !(%s) { return false }\n", cond, g.tr(rest))
		} else {
			fmt.Fprintf(&sb, "if %s { return true }\n", cond)
		}
		for range e.Binds {
			sb.WriteString("}\n")
		}
		if e.Op == "forall" {
			sb.WriteString("return true }()")
		} else {
			sb.WriteString("return false }()")
		}
		return sb.String()
	}
	g.fail("%s expression", e.Kind)
	return ""
}

// ---------------------------------------------------------------------------

// TryReplay attempts to reproduce a "sat" obligation on the real code of repo.
func TryReplay(o *Obligation, clause *Clause, repo string, workDir string) (res *ReplayResult) {
	res = &ReplayResult{}
	ri := o.Replay
	if ri == nil || ri.FI == nil || ri.FI.Lit != nil || o.Result == nil || o.Result.Status != "sat" {
		res.Note = "no replay: not a top-level function obligation with a model"
		return
	}
	if o.Kind != "safety" && !(o.Kind == "ensures" && clause != nil) {
		res.Note = "no replay: only run-time checks and postconditions are replayed (kind " + o.Kind + ")"
		return
	}
	defer func() {
		if e := recover(); e != nil {
			if gu, ok := e.(replayGiveUp); ok {
				res.Note = "no replay: " + gu.why
				return
			}
			res.Note = fmt.Sprintf("no replay: internal error: %v", e)
		}
	}()
	x := ri.X
	z, err := startZ3(o.Ctx.Query(o.Hyps, o.Goal, QueryOpts{}))
	if err != nil {
		res.Note = "no replay: " + err.Error()
		return
	}
	defer z.close()
	// prefer a small model: bound the lengths of the slice parameters if the query stays satisfiable
	var lens []*Term
	for _, p := range ri.Params {
		if p == nil || p.Name() == "_" || isRefParamType(p.Type()) {
			continue
		}
		if _, ok := types.Unalias(p.Type()).Underlying().(*types.Slice); ok {
			lens = append(lens, SLen(x.ctx.Named("p$"+p.Name(), SSlice)))
		}
	}
	if len(lens) > 0 {
		for _, bound := range []int64{2, 4, 7} {
			var cs []*Term
			for _, l := range lens {
				cs = append(cs, App("<=", SBool, l, IntLit(bound)))
			}
			fmt.Fprintf(z.in, "(push)\n(assert %s)\n(check-sat)\n", And(cs...).String())
			a, err := z.readSexp()
			if err == nil && strings.TrimSpace(a) == "sat" {
				break
			}
			fmt.Fprint(z.in, "(pop)\n")
			if bound == 7 {
				// back to the unbounded model
				fmt.Fprint(z.in, "(check-sat)\n")
				z.readSexp()
			}
		}
	}
	r := &replayer{x: x, z: z, pkg: ri.FI.Pkg.Types, imports: map[string]string{}, objs: map[string]string{}, objType: map[string][]string{}, strs: map[string]string{}}
	var argNames []string
	var paramStmts []string
	spg := &specGo{x: x, params: map[string]string{}, bound: map[string]bool{}, pkg: r.pkg}
	for i, p := range ri.Params {
		if p == nil {
			r.giveUp("unnamed parameter")
		}
		name := p.Name()
		if name == "_" || name == "" {
			name = fmt.Sprintf("arg%d", i)
		}
		var t *Term
		typ := p.Type()
		if isRefParamType(typ) {
			r.giveUp("pointer-to-value parameter %s", p.Name())
		}
		switch types.Unalias(typ).Underlying().(type) {
		case *types.Signature, *types.Interface, *types.Chan:
			r.giveUp("parameter %s of type %s", p.Name(), typ)
		}
		t = x.ctx.Named("p$"+p.Name(), x.tm.SortOf(typ))
		e := r.value(t, typ, 0)
		gv := "a_" + name
		if e == "nil" {
			paramStmts = append(paramStmts, fmt.Sprintf("var %s %s", gv, r.typeStr(typ)))
		} else {
			paramStmts = append(paramStmts, fmt.Sprintf("%s := %s", gv, e))
		}
		argNames = append(argNames, gv)
		spg.params[p.Name()] = gv
	}
	for len(r.late) > 0 {
		l := r.late
		r.late = nil
		for _, f := range l {
			f()
		}
	}
	// call expression
	sig := ri.Sig
	call := ""
	fnName := ri.FI.Obj.Name()
	if sig.Recv() != nil {
		call = argNames[0] + "." + fnName + "(" + strings.Join(argNames[1:], ", ") + ")"
	} else {
		call = fnName + "(" + strings.Join(argNames, ", ") + ")"
	}
	if sig.Variadic() {
		r.giveUp("variadic function")
	}
	var resNames []string
	for i := 0; i < sig.Results().Len(); i++ {
		rn := fmt.Sprintf("res%d", i)
		resNames = append(resNames, rn)
		if n := sig.Results().At(i).Name(); n != "" && n != "_" {
			spg.params[n] = rn
		}
		spg.params[fmt.Sprintf("result%d", i)] = rn
	}
	if len(resNames) > 0 {
		spg.params["result"] = resNames[0]
	}
	post := ""
	if o.Kind == "ensures" {
		post = spg.tr(clause.Expr)
	}
	// test source
	var sb strings.Builder
	fmt.Fprintf(&sb, "package %s\n\n", ri.FI.Pkg.Types.Name())
	sb.WriteString("// generated by govc from a solver counterexample; injected with go test -overlay, never written to the repository\n\n")
	sb.WriteString("import (\n\t\"fmt\"\n\t\"slices\"\n\t\"testing\"\n")
	var ips []string
	for p := range r.imports {
		ips = append(ips, p)
	}
	sort.Strings(ips)
	for _, p := range ips {
		fmt.Fprintf(&sb, "\t%s %q\n", r.imports[p], p)
	}
	sb.WriteString(")\n\nvar _ = slices.Clone[[]int]\n\n")
	sb.WriteString("func TestZZGovcReplay(t *testing.T) {\n")
	for _, d := range r.decls {
		sb.WriteString("\t" + d + "\n")
	}
	for _, d := range r.inits {
		sb.WriteString("\t" + d + "\n")
	}
	for i := 1; i <= r.nobj; i++ {
		fmt.Fprintf(&sb, "\t_ = o%d\n", i)
	}
	for _, d := range paramStmts {
		sb.WriteString("\t" + d + "\n")
	}
	for _, a := range argNames {
		fmt.Fprintf(&sb, "\t_ = %s\n", a)
	}
	for _, d := range spg.olds {
		sb.WriteString("\t" + d + "\n")
	}
	for i := 1; i <= spg.nold; i++ {
		fmt.Fprintf(&sb, "\t_ = old%d\n", i)
	}
	sb.WriteString("\tfunc() {\n\t\tdefer func() {\n\t\t\tif e := recover(); e != nil {\n\t\t\t\tfmt.Printf(\"GOVC-REPLAY panic: %v\\n\", e)\n\t\t\t}\n\t\t}()\n")
	if len(resNames) > 0 {
		fmt.Fprintf(&sb, "\t\t%s := %s\n", strings.Join(resNames, ", "), call)
		for _, rn := range resNames {
			fmt.Fprintf(&sb, "\t\t_ = %s\n", rn)
		}
		sb.WriteString("\t\tfmt.Println(\"GOVC-REPLAY returned\")\n")
	} else {
		fmt.Fprintf(&sb, "\t\t%s\n\t\tfmt.Println(\"GOVC-REPLAY returned\")\n", call)
	}
	if post != "" {
		fmt.Fprintf(&sb, "\t\tfmt.Printf(\"GOVC-REPLAY post: %%v\\n\", %s)\n", post)
	}
	sb.WriteString("\t}()\n}\n")
	res.TestSrc = sb.String()

	// run it against the repository's working tree
	pkgDir := filepath.Dir(x.prog.Fset.Position(ri.FI.Decl.Pos()).Filename)
	tmp, err := os.MkdirTemp(workDir, "replay-")
	if err != nil {
		res.Note = "no replay: " + err.Error()
		return
	}
	defer os.RemoveAll(tmp)
	src := filepath.Join(tmp, "zz_govc_replay_test.go")
	os.WriteFile(src, []byte(res.TestSrc), 0o644)
	ov, _ := json.Marshal(map[string]any{"Replace": map[string]string{filepath.Join(pkgDir, "zz_govc_replay_test.go"): src}})
	ovf := filepath.Join(tmp, "overlay.json")
	os.WriteFile(ovf, ov, 0o644)
	cmd := exec.Command("go", "test", "-overlay", ovf, "-vet=off", "-count=1", "-v", "-timeout", "60s", "-run", "^TestZZGovcReplay$", ".")
	cmd.Dir = pkgDir
	cmd.Env = append(os.Environ(), "GOFLAGS=-mod=mod", "GOPROXY=off", "GOSUMDB=off", "GOTOOLCHAIN=local")
	out, _ := cmd.CombinedOutput()
	res.Output = string(out)
	if len(res.Output) > 4000 {
		res.Output = res.Output[:4000] + "\n...(truncated)"
	}
	switch {
	case o.Kind == "safety" && strings.Contains(res.Output, "GOVC-REPLAY panic:"):
		res.Reproduced = true
		res.Note = "replayed on the real code: the call panics"
	case o.Kind == "ensures" && strings.Contains(res.Output, "GOVC-REPLAY post: false"):
		res.Reproduced = true
		res.Note = "replayed on the real code: the postcondition evaluates to false after the call"
	case strings.Contains(res.Output, "GOVC-REPLAY"):
		res.Note = "the solver's model did not reproduce on the real code (float64 vs real arithmetic, or parts of the state the replay could not build)"
	default:
		res.Note = "no replay: the generated test did not build or run"
	}
	return
}
