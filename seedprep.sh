#!/bin/sh
# Developer aid: prepare a scratch worktree of /repo (contract files stripped) for a seeding sub-agent.
#   seedprep.sh <tag>     -> /tmp/seed/<tag>  (+ /tmp/seed/<tag>.out for the agent's deliverables)
set -e
tag=$1
rm -rf /tmp/seed/$tag /tmp/seed/$tag.out /tmp/seed/$tag.demo
git -C /repo worktree prune
mkdir -p /tmp/seed
git -C /repo worktree add -q --detach /tmp/seed/$tag HEAD
cd /tmp/seed/$tag
git rm -q -r --cached $(git ls-files | grep verif_contracts) >/dev/null
rm -f $(find . -name 'verif_contracts*.go')
git -c user.name=seed -c user.email=seed@x commit -qm "strip contract files for seeding"
echo "/tmp/seed/$tag ready"
