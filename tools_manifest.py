#!/usr/bin/env python3
"""Regenerates /verif/MANIFEST.json from props.json and manifest_texts.json (developer aid, not used by checks)."""
import json, subprocess

props = json.load(open('/verif/props.json'))
texts = json.load(open('/verif/manifest_texts.json'))
allp = [json.loads(l)['id'] for l in open('/verif/properties.jsonl')]

def hook_commits():
    try:
        out = subprocess.check_output(['git', '-C', '/repo', 'log', '--format=%H %s'], text=True)
        return [l.split()[0] for l in out.splitlines() if l.split(' ', 1)[1].startswith('verif:')]
    except Exception:
        return []

checks = []
na = []
for pid in allp:
    t = texts.get(pid, {})
    if pid in props and not t.get('not_applicable'):
        checks.append({
            "property_id": pid,
            "quick_cmd": f"bin/govc check -property {pid} -tier quick",
            "thorough_cmd": f"bin/govc check -property {pid} -tier thorough",
            "evidence_file": f"/verif/evidence/{pid}.json",
            "replay_cmd_template": "cat {path}",
            "engine": "govc",
            "level_claimed": {
                "category": t.get("category", "proof"),
                "text": t["level_text"],
                "design_ref": t.get("design_ref", f"DESIGN.md section 4 {pid}"),
            },
            "level_note": t["level_note"],
            "technique": t.get("technique", "contract-based deductive verification: weakest-precondition VCs generated from the typed Go AST by govc, discharged by z3/cvc5"),
        })
    else:
        na.append({"property_id": pid, "reason": t.get("not_applicable", "check not built yet in this session; planned, see DESIGN.md section 4")})

manifest = {
    "version": 1,
    "setup_cmd": "sh /verif/build.sh",
    "hooks": {
        "guard": "verif",
        "enable": "-tags verif (comment-only contract files verif_contracts.go per package; they compile to nothing)",
        "baseline_off_cmd": "cd /repo && GOFLAGS=-mod=mod GOPROXY=off GOSUMDB=off GOTOOLCHAIN=local go test -vet=off -count=1 ./...",
        "source_commits": hook_commits(),
        "add_only": True,
    },
    "engines": [{
        "name": "govc",
        "path": "/verif/govc",
        "serves_properties": [c["property_id"] for c in checks],
        "kind_free_text": "self-written deductive verifier for Go: loads /repo's working tree with go/packages (-tags verif), reads //@ contracts, generates VCs by symbolic execution of the typed AST (Burstall heap, aliasing slices, maps, loop invariants, call contracts), discharges them with z3 4.8.12 / z3 5.1.0 / cvc5 1.0.3",
    }],
    "checks": checks,
    "not_applicable": na,
    "notes": texts.get("_notes", ""),
}
json.dump(manifest, open('/verif/MANIFEST.json', 'w'), indent=1)
print("wrote MANIFEST.json:", len(checks), "checks,", len(na), "not applicable")
