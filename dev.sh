#!/bin/sh
# Developer convenience: rebuild govc, clear the solver work dir, run govc with the given arguments.
set -e
cd "$(dirname "$0")"
sh build.sh
rm -rf .cache/govc-work
exec bin/govc "$@"
