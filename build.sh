#!/bin/sh
# Builds /verif/bin/govc offline from the vendored sources (MANIFEST.setup_cmd).
set -e
cd "$(dirname "$0")/govc"
export GOFLAGS=-mod=vendor GOPROXY=off GOSUMDB=off GOTOOLCHAIN=local CGO_ENABLED=0
mkdir -p ../bin
go build -o ../bin/govc .
