#!/usr/bin/env python3
"""Validate MANIFEST.json and evidence/*.json against the schemas (developer aid; run with python3-vt)."""
import json, sys, glob, jsonschema
ok = True
try:
    m = json.load(open('/verif/MANIFEST.json'))
    jsonschema.validate(m, json.load(open('/root/.vp/MANIFEST.schema.json')))
    print('MANIFEST ok:', len(m['checks']), 'checks,', len(m.get('not_applicable', [])), 'not applicable')
    ids = {c['property_id'] for c in m['checks']} | {n['property_id'] for n in m.get('not_applicable', [])}
    allp = {json.loads(l)['id'] for l in open('/verif/properties.jsonl')}
    if ids != allp:
        print('MANIFEST does not cover', sorted(allp - ids), 'extra', sorted(ids - allp)); ok = False
except Exception as e:
    print('MANIFEST invalid:', e); ok = False
sch = json.load(open('/root/.vp/EVIDENCE.schema.json'))
for f in sorted(glob.glob('/verif/evidence/*.json')):
    try:
        ev = json.load(open(f)); jsonschema.validate(ev, sch)
        c = ev['coverage']
        print(f, 'ok', ev['level'], c.get('obligations'), c.get('discharged'), 'wall', round(ev['wall_s'], 1))
    except Exception as e:
        print(f, 'INVALID', str(e)[:300]); ok = False
sys.exit(0 if ok else 1)
