#!/usr/bin/env python3
# Developer aid: write seeded/<name>/meta.json.  seedmeta.py <name> <property> <round> <needs> <prop=outcome>...
import json, sys
name, prop, rnd, needs = sys.argv[1:5]
det = dict(a.split("=", 1) for a in sys.argv[5:])
json.dump({"property": prop, "needs": needs, "detected_by": det,
  "ran": "sh /verif/seedcheck.sh <name> <agent out dir> <properties>: demo passes on unchanged /repo, go build + existing tests pass with patch, demo fails with patch, checks run with patch applied, /repo restored",
  "round": int(rnd)}, open(f"/verif/seeded/{name}/meta.json", "w"), indent=1)
